"""Dev tool: run random concurrent scenarios and test a trace acceptor on them.
usage: m5acc.py <module e.g. model.M5full> <seed> <n> [profile-json]"""
import sys; sys.path.insert(0,'/verif/tools')
from vlib import *
import m5, random, json
mod=sys.argv[1]; DBGF=os.environ.get('DBG','targets'); seed=int(sys.argv[2]); n=int(sys.argv[3])
prof=json.loads(sys.argv[4]) if len(sys.argv)>4 else None
rnd=random.Random(seed)
scs=[m5.Gen(rnd,prof).gen(rnd.randint(10,40)) for _ in range(n)]
work=Work("m5acc")
ok,gout,outs=m5.run_scenarios(work,scs)
if not ok: print(gout[-2000:]); sys.exit(1)
from concurrent.futures import ThreadPoolExecutor
def ev(i):
    body=("Definition tr := %s.\nDefinition R := Eval vm_compute in match first_reject step init tr 0 with None => None | Some k => Some (k, nth_error tr k, "
          "match run step init (firstn k tr) with Some st => Some ("+DBGF+" st) | None => None end) end.\n") % m5.trace_term(outs[i]["events"])
    return i, coq_eval(work,"acc_%d"%i,"From KP Require Import model.Base model.Trace %s."%mod,body,"R")
rej=0
with ThreadPoolExecutor(max_workers=16) as ex:
    for i,txt in ex.map(ev, range(n)):
        if txt.strip()!="None":
            rej+=1
            print(txt[:3000])
            k=int(re.search(r"(\d+)",txt).group(1))
            # map back: trace_term inserts extra events; recompute list
            items=[]
            seen=set()
            for e in outs[i]["events"]:
                for a in e["args"]:
                    for x in (a if isinstance(a,list) else [a]):
                        if isinstance(x,str) and re.fullmatch(r"[ST]\d+:.*",x,re.S) and x not in seen:
                            seen.add(x); items.append(("name",x))
                items.append(e)
                if e["kind"]=="issue" and len(e["args"])>=6: items.append(("params",e["args"]))
            print("scenario",i,"rejected at",k, items[k] if k<len(items) else None)
            lo=max(0,k-12)
            for it in items[lo:k]:
                if isinstance(it,dict): print("     ",it["t"]/1e9,it["g"],it["kind"],it["args"])
print("rejected",rej,"of",n)
work.cleanup()
