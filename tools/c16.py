"""C16 — TLS policy: redirect, refuse, certificates only for bound hosts.
Proof obligations of props/C16.v; correspondence of model/Seq.v (request
policy, inheritance of the TLS flags) and model/Tls.v (cert_for) with the real
router on histories of deploy / redeploy / remove / restart of root-path and
sub-path services (virtual clock), a request matrix scheme x Host x path x
query after every command and Router.GetCertificate for generated server
names; the monitor corr/C16corr.c16_monitor on the observed histories."""
import random

import m4
import m4x
from vlib import *

SEC = m4.SEC
NAMES = [b"web", b"api", b"admin", b"blog", b"docs"]
# pool of deployed hosts; order in a deploy matters (the FIRST host decides what a sub-path service inherits)
HOSTS = [b"a.example.com", b"b.example.com", b"example.com", b"*.example.com", b"s.x.io", b"*.x.io", b"localhost",
         b"[::1]", b"Up.Example.com", b"-bad.example.com", b"ab--cd.example.com", b"under_score.example.com"]
ROOT_PREFIXES = [[], [b"/"], [b"/", b"/extra"], [b"x/", b"/"]]
SUB_PREFIXES = [[b"/api"], [b"/app/", b"/docs"], [b"api/v1"], [b"/docs"]]
TARGETS = [b"ta:80", b"tb:80", b"tc:8080", b"td"]


def gen_deploy(rnd, name, hosts_pool):
    root = rnd.random() < 0.6
    nh = rnd.choice([0, 1, 1, 1, 2, 2, 3]) if root else rnd.choice([0, 1, 1, 2, 2])
    hosts = rnd.sample(hosts_pool, min(nh, len(hosts_pool)))
    tls = rnd.random() < (0.7 if root else 0.5)
    cert = rnd.choice(["none", "none", "good"]) if tls else rnd.choice(["none", "none", "none", "good"])
    if rnd.random() < 0.03:
        tls, cert = True, "bad"
    return {"op": "deploy", "name": name, "hosts": hosts, "prefixes": list(rnd.choice(ROOT_PREFIXES if root else SUB_PREFIXES)),
            "tls": tls, "tls_redirect": rnd.random() < 0.65, "strip": rnd.random() < 0.5, "cert": cert, "pages": "none",
            "topts": rnd.choice([0, 0, 2]),      # 2: header forwarding on (client-supplied X-Forwarded-* are passed on to the target)
            "targets": [{"name": rnd.choice(TARGETS), "healthy": True}]}


# client-supplied headers that claim another scheme / host: the TLS policy looks at the connection, never at these
CLAIMS = [[(b"X-Forwarded-Proto", b"https")], [(b"X-Forwarded-Proto", b"http")], [(b"X-Forwarded-Ssl", b"on")],
          [(b"Forwarded", b"proto=https;host=a.example.com")], [(b"X-Forwarded-Host", b"b.example.com"), (b"X-Forwarded-Proto", b"https")],
          [(b"X-Forwarded-Port", b"443")], [(b"Front-End-Https", b"on")], [(b"X-Forwarded-Proto", b"HTTPS, http")]]


def gen_history(rnd, n):
    """deploy / redeploy / remove / restart (and a few stop / pause / resume: the
    policy precedes the pause gate) over a small pool of hosts shared by root-path
    and sub-path services."""
    pool = rnd.sample(HOSTS, rnd.choice([2, 3, 4]))
    if rnd.random() < 0.5 and b"a.example.com" not in pool:
        pool.append(b"a.example.com")
    hist, seen = [], []
    kinds = ["deploy"] * 11 + ["remove"] * 3 + ["restart"] * 2 + ["stop", "resume", "pause"]
    for _ in range(n):
        k = rnd.choice(kinds) if hist else "deploy"
        name = rnd.choice(seen) if seen and rnd.random() < 0.55 else rnd.choice(NAMES)
        if k == "deploy":
            hist.append(gen_deploy(rnd, name, pool))
            if name not in seen:
                seen.append(name)
        elif k == "restart":
            hist.append({"op": "restart"})
        elif k == "stop":
            hist.append({"op": "stop", "name": name, "msg": b"down"})
        elif k == "pause":
            hist.append({"op": "pause", "name": name, "fail_after": SEC})
        else:
            hist.append({"op": k, "name": name})
    return hist, pool


PORTS = [b"", b"", b":80", b":443", b":8080"]
PATHS = [b"/", b"/api", b"/api/v1/x", b"/app/z", b"/docs", b"/docs/a%2Fb", b"/x/y", b"/%41pi", b"//evil.com/x", b"/a;b=c", b"/caf%C3%A9",
         b"/up", b"/extra/1", b"/x%20y", b"/p%zz"[:2]]
QUERIES = [b"", b"", b"?a=b", b"?a=b&c=d%20e", b"?", b"?x=%2F&y=http://evil.com/", b"?q=1?r=2"]
ACME_PREFIX = b"/.well-known/acme-challenge/"


def concrete(rnd, h):
    if h.startswith(b"*"):
        return rnd.choice([b"sub", b"deep.sub", b"a"]) + h[1:]
    return h


def live_deploys(rnd, hist, i):
    latest = {}
    for c in hist[:i + 1]:
        if c["op"] == "deploy":
            latest[c["name"]] = c
        elif c["op"] == "remove" and rnd.random() < 0.7:
            latest.pop(c["name"], None)
    return list(latest.values()) or [c for c in hist[:i + 1] if c["op"] == "deploy"]


def gen_matrix(rnd, hist, i, pool, k):
    deployed = live_deploys(rnd, hist, i)
    reqs = []
    for _ in range(k):
        c = rnd.choice(deployed) if deployed else None
        x = rnd.random()
        if x < 0.7 and c:
            host = concrete(rnd, rnd.choice(c["hosts"])) if c["hosts"] else rnd.choice(
                [b"whatever.test", b"[::1]", b"[2001:db8::1]", b"127.0.0.1", b"::1", b"h.test:", b"h.test:80:90", b"[::1", b"h.test:http", b":80"])
        elif x < 0.8:
            host = concrete(rnd, rnd.choice(pool))
        elif x < 0.92:
            host = rnd.choice([b"[::1]", b"[2001:db8::1]", b"unknown.org", b"127.0.0.1", b"A.EXAMPLE.COM", b"example.com."])
        else:   # malformed Host headers
            host = rnd.choice([b"::1", b"a.example.com:", b"a.example.com:80:90", b"[::1", b"a.example.com:http", b":80"])
        if not host.endswith(b":") and b":80:" not in host and host not in (b"::1", b"[::1", b":80") and not host.endswith(b":http"):
            host += rnd.choice(PORTS)
        if c and rnd.random() < 0.75:
            pre = b"/" + rnd.choice(c["prefixes"] or [b"/"]).strip(b"/")
            path = rnd.choice(PATHS) if pre == b"/" else pre + rnd.choice([b"", b"/", b"/x", b"/a%2Fb", b"/%41", b"x"])
        else:
            path = rnd.choice(PATHS)
        uri = path + rnd.choice(QUERIES)
        assert not uri.startswith(ACME_PREFIX)
        reqs.append({"host": host, "uri": uri, "tls": rnd.random() < 0.4, "cookie": None,
                     "method": rnd.choice(["GET", "GET", "POST", "HEAD"]),
                     "xhdrs": rnd.choice(CLAIMS) if rnd.random() < 0.3 else []})
    return reqs


def gen_sni(rnd, hist, i, pool, k):
    deployed = live_deploys(rnd, hist, i)
    names = []
    for _ in range(k):
        x = rnd.random()
        c = rnd.choice(deployed) if deployed else None
        tls_roots = [d for d in deployed if d["tls"] and d["hosts"] and (not d["prefixes"] or any(p.strip(b"/") == b"" for p in d["prefixes"]))]
        if tls_roots and rnd.random() < 0.6:
            c = rnd.choice(tls_roots)
        h = rnd.choice(c["hosts"]) if c and c["hosts"] and rnd.random() < 0.85 else rnd.choice(pool)
        if x < 0.5:
            n = concrete(rnd, h)
        elif x < 0.65:
            n = concrete(rnd, h).upper() if rnd.random() < 0.5 else concrete(rnd, h).swapcase()
        elif x < 0.72:
            n = concrete(rnd, h) + b"."
        elif x < 0.78:
            n = b""
        else:
            n = rnd.choice([b"unknown.org", b"example.com", b"sub.example.com", b"deep.sub.example.com", b"localhost", b"LOCALHOST",
                            b"x.io", b"q.s.x.io", b"a.example.com", b"::1", b"com", b".", b"a..example.com", b"-bad.example.com"])
        names.append(n)
    return names


def systematic(rnd, tier):
    """Small scope, every combination: a root-path service (tls x redirect x certificate kind) and a sub-path
    service (its own tls x redirect wishes) on a shared host, in permuted deployment orders, with removal,
    restart, redeploy with flipped flags, and a second host whose root-path service has the opposite flags
    (the sub-path service lists the two hosts in either order)."""
    A, B = b"a.example.com", b"b.example.com"

    def dep(name, hosts, prefixes, tls, redir, cert):
        return {"op": "deploy", "name": name, "hosts": hosts, "prefixes": prefixes, "tls": bool(tls), "tls_redirect": bool(redir),
                "strip": False, "cert": cert, "pages": "none", "topts": 0, "targets": [{"name": b"ta:80", "healthy": True}]}
    out = []
    for rt in (0, 1):
        for rr in (0, 1):
            for rc in ("none", "good"):
                for st in (0, 1):
                    for sr in (0, 1):
                        root = dep(b"web", [A], [], rt, rr, rc)
                        flipped = dep(b"web", [A], [b"/"], 1 - rt, 1 - rr, rc)
                        sub = dep(b"api", [A], [b"/api"], st, sr, "none")
                        rootb = dep(b"blog", [B], [b"/"], 1 - rt, 1 - rr, "good" if rc == "none" else "none")
                        sub_ab = dep(b"api", [A, B], [b"/api"], st, sr, "none")
                        sub_ba = dep(b"api", [B, A], [b"api/"], st, sr, "none")
                        out += [[root, sub], [sub, root], [sub, root, {"op": "remove", "name": b"web"}],
                                [root, sub, {"op": "restart"}, flipped], [root, rootb, sub_ab, {"op": "restart"}],
                                [rootb, sub_ba, root, {"op": "remove", "name": b"blog"}]]
    if tier == "quick":
        out = rnd.sample(out, 32)
    return [(h, [A, B]) for h in out]


def gen_cases(seed, tier):
    rnd = random.Random(seed)
    n = 40 if tier == "quick" else 700
    hp = systematic(rnd, tier) + [gen_history(rnd, rnd.randint(4, 10)) for _ in range(n)]
    cases = []
    for hist, pool in hp:
        mats = [gen_matrix(rnd, hist, i, pool, 8) for i in range(len(hist))]
        snis = [gen_sni(rnd, hist, i, pool, 6) for i in range(len(hist))]
        cases.append((hist, mats, snis, pool))
    return cases


def scenario_of(hist, mats, snis):
    sc = m4.to_scenario(hist, mats)
    steps = []
    for st in sc["steps"]:
        steps.append(st)
        if st["op"] == "observe":
            i = int(st["id"][1:])
            steps.append({"op": "getcert", "id": "g%d" % i, "names": [m4.H(n) for n in snis[i]]})
    return {"steps": steps}


def fault_scenarios():
    """a TLS + redirect service with a static certificate (alone / with a sub-path service that inherits its flags); the
    certificate files become unreadable; restart; requests; the files come back; restart; requests (corr/C16fault.v)"""
    H = m4.H
    out = []
    for with_sub in (False, True):
        for redirect in (True, False):
            steps, reqs = [], []

            def dep(cid, name, prefixes, tls, cert, tgt):
                return {"op": "deploy", "id": cid, "name": H(name), "hosts": [H(b"a.example.com")], "prefixes": [H(p) for p in prefixes],
                        "tls": tls, "tls_redirect": redirect, "strip": False, "cert": cert, "pages": "none",
                        "targets": [{"name": H(tgt), "probes": ["ok"]}], "deploy_timeout": m4.DEPLOY_TIMEOUT, "drain_timeout": SEC,
                        "topts": {"health_path": H(b"/up")}}

            def request(phase, uri, tls):
                rid = "f%d" % len(reqs)
                steps.append({"op": "request", "id": rid, "async": False, "host": H(b"a.example.com"), "uri": H(uri), "tls": tls,
                              "method": "GET", "headers": []})
                reqs.append({"id": rid, "phase": phase, "tls": tls, "uri": uri.decode()})
            steps.append(dep("c0", b"web", [], True, "good", b"ta:80"))
            if with_sub:
                steps.append(dep("c1", b"api", [b"/api"], False, "none", b"tb:80"))
            for phase, pre in (("unreadable", "gone"), ("readable-again", "back")):
                steps.append({"op": "cert_files", "id": "x-" + pre, "state": pre})
                steps.append({"op": "restart", "id": "r-" + pre})
                for uri in ([b"/", b"/docs?x=1"] + ([b"/api/v1"] if with_sub else [])):
                    if redirect or phase == "unreadable":
                        request(phase, uri, False)
                    request(phase, uri, True)
            out.append({"scenario": {"steps": steps}, "reqs": reqs, "with_sub": with_sub, "redirect": redirect})
    return out


ANSWER = {"refused": 0, "static": 1, "automatic": 2}
IMPORTS = ("From KP Require Import model.Base model.ServiceMap model.Seq model.Tls corr.M4corr corr.C16corr.\n"
           "Local Open Scope N_scope.\n")


def run(tier, seed):
    res = Result("C16", tier, seed)
    work = Work("C16")
    try:
        t_phase = [time.time()]
        ok, blog = coq_build(["props/C16.vo", "corr/C16corr.vo", "corr/C16fault.vo"])
        t_phase.append(time.time())
        proofs_ok, pa = proof_obligations(work, res, "C16.v", ok, blog)
        if ok:
            # the ladder of model/Seq.v serve (redirect, TLS refusal, then the gate and the balancer) proved equal to
            # serviceRequestWithTarget / shouldRedirectToHTTPS as the source has them on this run
            import gentie
            g_ok, g_log = gentie.gen_tie(work, res, only=("gen_service_ladder",))
            if not g_ok:
                proofs_ok = False
                pa += "\n" + g_log
        gate = m4x.gate_for(["props/C16.v", "corr/C16corr.v"])
        if gate:
            proofs_ok = False
            pa += "\nforbidden constructs: " + "; ".join(gate[:10])
        cases = gen_cases(seed, tier)
        scenarios = [scenario_of(h, m, s) for (h, m, s, _) in cases]
        t_phase.append(time.time())
        harness_ok, gout, outs = m4x.go_run(work, scenarios, ["c16_test.go"])
        t_phase.append(time.time())
        results, cert_obs = [], []
        if harness_ok and ok:
            terms = []
            for (h, m, s, _), o in zip(cases, outs):
                rs = {r["id"]: r for r in o["results"]}
                certs = []
                for i in range(len(h)):
                    g = rs["g%d" % i]
                    certs.append([(bytes.fromhex(a["name"]), a["answer"], g["t1"] - g["t0"]) for a in g["answers"]])
                cert_obs.append(certs)
                cterm = list_lit([list_lit(["(%s, %d)" % (str_lit(nm), ANSWER.get(a, 9)) for (nm, a, _) in c]) for c in certs])
                # 503 page bodies are not part of C16's projection: leave them out of the terms
                with m4x.body_literals(lambda b: "[]" if len(b) > 1000 else str_lit(b)):
                    hterm = m4.history_term(h, m, o)
                terms.append("(%s,\n %s)" % (hterm, cterm))
            defs = "Definition ig := %s.\n" % m4.simple_in_group()
            expr = ("fun hc => let h := fst hc in let cs := snd hc in "
                    "(map (fun m => (mi_step m, mi_what m)) (check_history ig fixed (c16_history h)), "
                    "c16_cert_mismatches fixed (upto_panic h) cs, c16_monitor (upto_panic h) cs, "
                    "targets_modelled h, c16_stats (upto_panic h) cs)")
            results = m4x.coq_map(work, IMPORTS, defs, terms, expr, "C16", shard=5)
        # the policy across a restart at which the certificate files are unreadable (corr/C16fault.v)
        faults = fault_scenarios()
        fault_bad = []
        if harness_ok and ok:
            f_ok, f_out, f_outs = m4x.go_run(work, [x["scenario"] for x in faults], ["c16_test.go"])
            if not f_ok:
                harness_ok, gout = False, f_out
            else:
                items = []
                for x, o in zip(faults, f_outs):
                    rs = {r["id"]: r for r in o["results"]}
                    # with redirect off a plain-HTTP request is forwarded by design: only the "unreadable" phase is judged for those
                    sel = [q for q in x["reqs"] if x["redirect"] or q["tls"] or q["phase"] == "unreadable"]
                    if not x["redirect"]:
                        sel = [q for q in sel if q["tls"]]
                    x["judged"] = sel
                    items.append("[%s]" % "; ".join("(%s, (%d)%%N, %s)" % (bool_lit(q["tls"]), rs.get(q["id"], {}).get("status", 0),
                                                                        bool_lit(bool(rs.get(q["id"], {}).get("served_by")))) for q in sel))
                rows = m4x.coq_map(work, "From KP Require Import model.Base corr.C16fault.\nLocal Open Scope N_scope.\n", "", items,
                                   "fun l => c16_fault_bad l", "C16fault", shard=4)
                for j, bad in enumerate(rows):
                    if bad:
                        rs = {r["id"]: r for r in f_outs[j]["results"]}
                        fault_bad.append((j, [dict(faults[j]["judged"][k], status=rs.get(faults[j]["judged"][k]["id"], {}).get("status"),
                                                   served_by=rs.get(faults[j]["judged"][k]["id"], {}).get("served_by")) for k in bad],
                                          {r["id"]: r.get("result") for r in f_outs[j]["results"] if r.get("op") == "restart"}))
        res.coverage["restart_with_unreadable_certificate"] = {"scenarios": len(faults), "bad": len(fault_bad)}
        t_phase.append(time.time())
        mon_fail, disagree = [], []
        stats = [0, 0, 0, 0]
        for j, r in enumerate(results):
            mis, cmis, mon, modelled, st = r
            for k in range(4):
                stats[k] += st[k]
            if mon:
                mon_fail.append((j, mon))
            if mis or cmis or not modelled:
                disagree.append((j, mis, cmis, modelled))
        statuses, cmds, answers, nreq, ncert, elapsed = {}, {}, {}, 0, 0, 0
        for (h, m, s, _), o in zip(cases, outs):
            rs = {r["id"]: r for r in o["results"]}
            for i, c in enumerate(h):
                key = c["op"] + ":" + rs["c%d" % i]["result"]
                cmds[key] = cmds.get(key, 0) + 1
                for q in range(len(m[i])):
                    stt = str(rs["q%d_%d" % (i, q)]["status"])
                    statuses[stt] = statuses.get(stt, 0) + 1
                    nreq += 1
                g = rs["g%d" % i]
                elapsed = max(elapsed, g["t1"] - g["t0"])
                for a in g["answers"]:
                    answers[a["answer"]] = answers.get(a["answer"], 0) + 1
                    ncert += 1
        combos = {}
        for (h, _, _, _) in cases:
            for c in h:
                if c["op"] == "deploy":
                    key = "%s tls=%d redirect=%d cert=%s" % ("root" if (not c["prefixes"] or any(p.strip(b"/") == b"" for p in c["prefixes"])) else "sub",
                                                            c["tls"], c["tls_redirect"], c["cert"])
                    combos[key] = combos.get(key, 0) + 1
        res.coverage.update({
            "evaluations": nreq + ncert, "distinct_nontrivial": len({json.dumps(s, sort_keys=True) for s in scenarios}),
            "rule": "one evaluation = one request answered by the real router, or one Router.GetCertificate call, after a command of a "
                    "generated history (%d histories: a sample of the systematic root/sub-path flag and order combinations + random histories of "
                    "4-10 commands; 8 requests and 6 server names after each command); distinct = "
                    "distinct scenarios by JSON" % len(cases),
            "input_distribution": {"commands": cmds, "deploy_kinds": combos},
            "outcome_distribution": {"status": statuses, "getcertificate": answers,
                                     "plain_requests_to_tls_redirect_services_judged": stats[0],
                                     "tls_requests_to_non_tls_services_judged": stats[1],
                                     "sub_path_service_snapshots_judged_for_inheritance": stats[2],
                                     "certificate_answers_not_refused_judged": stats[3],
                                     "max_virtual_ns_spent_in_getcertificate": elapsed},
            "phase_s": dict(zip(["coq_build_incl_lock_wait", "proof_obligations_and_generation", "go_harness", "coq_evaluation"],
                                [round(b - a, 1) for a, b in zip(t_phase, t_phase[1:])])),
            "samples": [{"history": [m4.cmd_term(c) for c in cases[0][0]][:5]}],
            "correspondence": {"histories": len(cases), "model_disagreements": len(disagree), "monitor_failures": len(mon_fail)},
        })
        res.assumptions = [
            "model/Seq.v (serve, sync_tls, init_check) and model/Tls.v (cert_for) are hand-written; tied to service.go, "
            "service_map.go, router.go, cert.go and autocert's pre-ACME decisions only by this correspondence run",
            "requests under /.well-known/acme-challenge/ to a root-path service with automatic TLS are answered by autocert "
            "before any policy; not modelled, not generated",
            "automatic TLS is observed up to the point where the manager accepts the name and turns to the ACME directory "
            "(made unreachable); the ACME exchange, the certificate cache and the TLS handshake (crypto/tls, SNI extraction) "
            "are not modelled",
            "idna.Lookup.ToASCII is modelled for ASCII letter-digit-hyphen names without xn-- labels only; other server names "
            "are not generated",
            "request targets are limited to origin-form targets accepted by model/Url.parse_request_target (net/url)",
        ]

        def replay_payload(j, what, extra):
            h, m, s, pool = cases[j]
            rs = {r["id"]: r for r in outs[j]["results"]} if j < len(outs) else {}
            p = {"property": "C16", "what": what, "seed": seed, "tier": tier,
                 "history": [m4.cmd_term(c) for c in h], "history_readable": [
                     {k: (v.decode("latin-1") if isinstance(v, bytes) else [x.decode("latin-1") if isinstance(x, bytes) else x for x in v]
                          if isinstance(v, list) else v) for k, v in c.items() if k != "targets"} for c in h],
                 "scenario": scenarios[j]}
            p.update(extra)
            obs = []
            for f in extra.get("failing", [])[:4]:
                st, clause, k = f
                e = {"after_command": m4.cmd_term(h[st]), "command_result": rs.get("c%d" % st, {}).get("result"), "clause": clause}
                if clause in ("request", 1):
                    q = m[st][k]
                    rr = rs.get("q%d_%d" % (st, k), {})
                    e.update({"request": {k2: (v.decode("latin-1") if isinstance(v, bytes) else v) for k2, v in q.items()},
                              "status": rr.get("status"), "location": rr.get("location"), "served_by": rr.get("served_by")})
                elif clause in ("certificate", 3):
                    e.update({"server_name": s[st][k].decode("latin-1"), "answer": cert_obs[j][st][k][1]})
                elif clause in ("inheritance", 2):
                    sf = rs.get("o%d" % st, {}).get("state_file")
                    e.update({"state_file_services": [{"name": sv["name"], "hosts": sv["options"]["hosts"], "prefixes": sv["options"]["path_prefixes"],
                                                       "tls": sv["options"]["tls_enabled"], "redirect": sv["options"]["tls_redirect"]}
                                                      for sv in sf] if isinstance(sf, list) else sf})
                obs.append(e)
            p["observed"] = obs
            return p
        CL = {1: "request", 2: "inheritance", 3: "certificate", 4: "wildcard"}
        if fault_bad and not mon_fail:
            j, bad, restarts = fault_bad[0]
            res.violation("fault-%d" % j, {
                "property": "C16", "seed": seed, "tier": tier,
                "what": "a restart at which the static certificate files cannot be read: the TLS policy of the service was dropped (a "
                        "plain-HTTP request is answered other than 301 / 404, or forwarded; corr/C16fault.fault_req_ok)",
                "scenario": faults[j]["scenario"], "wrong_answers": bad, "restart_results": restarts})
        elif mon_fail:
            j, mon = mon_fail[0]
            res.violation("monitor-%d" % j, replay_payload(
                j, "monitor c16_monitor false on an implementation history (clauses: request = redirect/refusal, inheritance = "
                   "flags of a sub-path service in the state file, certificate = GetCertificate answer, wildcard = automatic TLS "
                   "with a wildcard host not refused)",
                {"failing": [[st, CL.get(cl, cl), k] for (st, cl, k) in mon]}))
        elif disagree or not harness_ok or not proofs_ok:
            what = ("model and implementation disagree" if disagree else
                    "harness does not build/run against the tree" if not harness_ok else "proof obligations of props/C16.v do not check")
            broken = ("corr.M4corr.check_history / corr.C16corr.c16_cert_mismatches (model/Seq.v, model/Tls.v vs the router)"
                      if (disagree or not harness_ok) else "props/C16.v")
            payload = {"property": "C16", "what": what, "seed": seed, "tier": tier, "broken": broken}
            if disagree:
                j, mis, cmis, modelled = disagree[0]
                payload = replay_payload(j, what, {"failing": [[st, "request", w - 5] for (st, w) in mis if w >= 5][:3]
                                                             + [[st, "certificate", k] for (st, k) in cmis][:3],
                                                   "model_mismatches": [list(x) for x in mis], "cert_mismatches": [list(x) for x in cmis],
                                                   "targets_modelled": modelled, "broken": broken})
            if not harness_ok:
                payload["harness_output"] = gout[-3000:]
            if not proofs_ok:
                payload["coq_output"] = (blog + pa)[-3000:]
            res.violation("broken", payload, no_input=True)
        return res.finish()
    finally:
        work.cleanup()
