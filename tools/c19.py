"""C19 — each request yields one access-log record that matches what happened:
correspondence of model/Logging.v with logging_middleware.go (unit level) and
with the whole handler chain of a real Server (every ending class), the monitor
of corr/C19corr.v, plus the proof obligations of props/C19.v."""
import random
import urllib.parse

from vlib import *

PROP = "C19"
TIMEOUT_MS = 300

REQ_POOL = ["X-Custom-Req", "user-agent", "ACCEPT-language", "x-multi", "X-Absent", "x_under-score", "x-CUSTOM-two"]
RESP_POOL = ["X-Custom-Resp", "set-COOKIE", "cache-control", "X-Absent-Resp", "x-multi-resp", "Etag", "x-LOWER-resp"]


def hx(s):
    return (s if isinstance(s, bytes) else s.encode()).hex()


def pick_names(rnd, pool):
    k = rnd.randint(0, 4)
    return rnd.sample(pool, k)


def services(rnd):
    def lists():
        return {"log_req": [hx(n) for n in pick_names(rnd, REQ_POOL)], "log_resp": [hx(n) for n in pick_names(rnd, RESP_POOL)]}
    svcs = [
        dict(name="web", host="web.test", **lists()),
        dict(name="buf", host="buf.test", buffer=True, max_req=1000, max_resp=2000, custom=True, **lists()),
        dict(name="pages", host="pages.test", custom=True, **lists()),
        dict(name="secure", host="example.com", tls=True, **lists()),
        dict(name="paused", host="paused.test", state="paused", pause_ms=120, **lists()),
        dict(name="stopped", host="stopped.test", state="stopped", message=hx('back at <noon> & "later"'), custom=rnd.random() < 0.5, **lists()),
        dict(name="drainme", host="drain.test", **lists()),
        dict(name="gen", host="gen.test", log_req=[hx("X-Custom-Req")], log_resp=[hx("X-Custom-Resp"), hx("date")]),
        # buffering with a small memory share and no body limit: larger bodies spill to the temporary file and are copied from there
        dict(name="spill", host="spill.test", buffer=True, max_req=0, max_resp=0, mem=1024, **lists()),
    ]
    # the first two always log something
    svcs[0]["log_req"] = [hx(n) for n in rnd.sample(REQ_POOL, 4)]
    svcs[0]["log_resp"] = [hx(n) for n in rnd.sample(RESP_POOL, 4)]
    return svcs


QUERIES = ["", "a=1&b=2", "b=2&a=1&a=3", "p=a;b", "q=caf%C3%A9&empty=&=novalue", "x=%41%5A&y=+%2B", "flag", "a=1&&b", "A=1&a=2"]
PATHS = ["/plain", "/a%20b/x", "/%41bc", "//double//slash", "/trailing/", "/caf%C3%A9", "", "/semi;colon", "/dot/./seg"]


def req_headers(rnd, svc):
    hs = []
    if rnd.random() < 0.7:
        hs.append(("User-Agent", rnd.choice(["verif/1.0", "Mozilla/5.0 (X11)", ""])))
    if rnd.random() < 0.5:
        hs.append((rnd.choice(["X-Custom-Req", "x-custom-req", "X-CUSTOM-REQ"]), rnd.choice(["v1", "two words", "comma,inside"])))
    if rnd.random() < 0.4:
        hs.append(("X-Multi", "m1"))
        hs.append((rnd.choice(["X-Multi", "x-multi"]), "m2"))
    if rnd.random() < 0.4:
        hs.append(("Accept-Language", "en-GB,en;q=0.9"))
    if rnd.random() < 0.3:
        hs.append(("x_under-score", "u"))
    if rnd.random() < 0.3:
        hs.append(("X-Custom-Two", "t"))
    if rnd.random() < 0.3:
        hs.append(("X-Forwarded-For", rnd.choice(["203.0.113.9", "10.1.1.1, 10.2.2.2"])))
    if rnd.random() < 0.5:
        hs.append(("X-Request-ID", "rid-%06x" % rnd.randrange(1 << 24)))
    rnd.shuffle(hs)
    return hs


def resp_headers(rnd):
    hs = [("Content-Type", rnd.choice(["text/plain", "application/json", "text/html; charset=utf-8"]))]
    if rnd.random() < 0.6:
        hs.append((rnd.choice(["X-Custom-Resp", "x-custom-resp"]), rnd.choice(["r1", "r 2"])))
    if rnd.random() < 0.5:
        hs.append(("Set-Cookie", "a=1; Path=/"))
        hs.append(("set-cookie", "b=2"))
    if rnd.random() < 0.4:
        hs.append(("Cache-Control", "no-store"))
    if rnd.random() < 0.4:
        hs.append(("X-Multi-Resp", "x"))
        hs.append(("X-Multi-Resp", "y"))
    if rnd.random() < 0.3:
        hs.append(("ETag", '"abc"'))
    if rnd.random() < 0.3:
        hs.append(("x-lower-resp", "l"))
    return hs


CLASSES = ["served_cl", "served_chunked", "served_head", "served_large", "served_204", "served_304", "target_404",
           "early_hints", "no_route", "no_route_head", "paused_out", "stopped", "redirect", "tls_refused", "fault_502",
           "timeout_504", "req_too_large", "resp_too_large", "client_abort", "upgrade", "sse", "cut", "claim_refused", "served_gen"]


def mk_case(rnd, cid, cls, svcs):
    by = {s["name"]: s for s in svcs}
    c = {"kind": "req", "id": cid, "class": cls, "method": "GET", "body_len": 0, "tls": False, "client": ""}
    svc = rnd.choice(["web", "buf", "pages"])
    script = {"kind": "reply", "status": 200, "headers": [], "body_start": rnd.randint(0, 250), "body_len": rnd.choice([0, 1, 10, 999, 1500])}
    if cls == "served_cl":
        c["method"] = rnd.choice(["GET", "POST", "PUT", "DELETE"])
        c["body_len"] = rnd.choice([0, 5, 500]) if c["method"] in ("POST", "PUT") else 0
        script["status"] = rnd.choice([200, 200, 201, 500])
    elif cls == "served_chunked":
        script["chunked"] = True
        script["body_len"] = rnd.choice([0, 3, 1999, 1500])
    elif cls == "served_head":
        c["method"] = "HEAD"
    elif cls == "served_large":
        svc = rnd.choice(["web", "pages", "spill", "spill"])
        script["body_len"] = rnd.choice([70000, 300000] if svc != "spill" else [1025, 8192, 70000, 300000])
        script["chunked"] = rnd.random() < 0.5
    elif cls == "served_204":
        script["status"], script["body_len"] = 204, 0
    elif cls == "served_304":
        script["status"], script["body_len"] = 304, 0
    elif cls == "target_404":
        script["status"] = 404
    elif cls == "early_hints":
        script["kind"] = "hints"
        script["status"] = rnd.choice([200, 200, 404, 500])
        script["body_len"] = rnd.choice([1, 10, 999, 1500])
        svc = rnd.choice(["web", "buf", "buf", "pages"])
    elif cls in ("no_route", "no_route_head"):
        svc = None
        c["method"] = "HEAD" if cls == "no_route_head" else rnd.choice(["GET", "POST"])
    elif cls == "paused_out":
        svc = "paused"
    elif cls == "stopped":
        svc = "stopped"
    elif cls == "redirect":
        svc = "secure"
        c["method"] = rnd.choice(["GET", "POST", "HEAD"])
    elif cls == "tls_refused":
        svc = rnd.choice(["web", "buf"])
        c["tls"], c["sni"] = True, "example.com"
    elif cls == "fault_502":
        script = {"kind": "close"}
    elif cls == "timeout_504":
        script = {"kind": "silence"}
    elif cls == "req_too_large":
        svc = "buf"
        c["method"], c["body_len"] = "POST", rnd.choice([1001, 5000])
    elif cls == "resp_too_large":
        svc = "buf"
        script["body_len"] = rnd.choice([2001, 9000])
    elif cls == "client_abort":
        script = {"kind": "silence"}
        c["client"], c["abort_ms"] = "abort", 80
    elif cls == "upgrade":
        svc = rnd.choice(["web", "pages", "buf"])
        script = {"kind": "upgrade", "headers": []}
        c["client"] = "upgrade"
    elif cls == "sse":
        script = {"kind": "sse", "status": 200, "headers": [], "events": rnd.randint(1, 6)}
    elif cls == "cut":
        script["kind"] = "cut"
        script["body_len"] = rnd.choice([100, 1500, 70000])
        script["prefix_len"] = rnd.choice([0, 10, script["body_len"] // 2])
    elif cls == "claim_refused":
        svc = "drainme"
    elif cls == "served_gen":
        svc = "gen"
    host = by[svc]["host"] if svc else "nowhere.test"
    if cls == "tls_refused":
        pass
    path = rnd.choice(PATHS)
    query = rnd.choice(QUERIES)
    target = "/c%d%s" % (cid, path) + (("?" + query) if query or rnd.random() < 0.1 else "")
    hs = req_headers(rnd, svc)
    if cls == "upgrade":
        hs += [("Connection", "Upgrade"), ("Upgrade", "websocket")]
    else:
        hs.append(("Connection", "close"))
    if "headers" in script and script["kind"] in ("reply", "hints", "sse", "upgrade", "cut"):
        rh = resp_headers(rnd)
        if script["kind"] in ("sse", "upgrade"):
            rh = [h for h in rh if h[0] != "Content-Type"]
        script["headers"] = [[hx(k), hx(v)] for k, v in rh]
    body = bytes(((7 + i) % 251) for i in range(c["body_len"]))
    if c["method"] in ("POST", "PUT") or c["body_len"]:
        hs.append(("Content-Length", str(len(body))))
        if rnd.random() < 0.5:
            hs.append(("Content-Type", "application/x-verif"))
    raw = ("%s %s HTTP/1.1\r\nHost: %s\r\n" % (c["method"], target, host)).encode()
    for k, v in hs:
        raw += ("%s: %s\r\n" % (k, v)).encode()
    raw += b"\r\n" + body
    c.update({"service": svc or "", "host": host, "target": target, "path": "/c%d%s" % (cid, path), "query": query,
              "headers": [[hx(k), hx(v)] for k, v in hs], "raw": raw.hex(), "script": script})
    return c


def gen_cases(seed, tier):
    rnd = random.Random(seed)
    svcs = services(rnd)
    # with an odd seed the whole chain-level run goes through a RESTARTED proxy (a router restored from the state file the deploys
    # wrote): every record must be the same - the logged header lists, service and target names survive the restart
    cases = [{"kind": "config", "timeout_ms": TIMEOUT_MS, "services": svcs, "restored": seed % 2 == 1}]
    cid = [0]

    def add(cls):
        cid[0] += 1
        c = mk_case(rnd, cid[0], cls, svcs)
        if cls == "claim_refused":
            cid[0] += 1
            slow = mk_case(rnd, cid[0], "served_cl", svcs)
            # rebuild the slow request on the right host whatever service mk_case drew
            slow = rebuild_host(slow, "drain.test")
            slow["service"] = "drainme"
            slow["script"] = dict(slow["script"], kind="delay", delay_ms=250)
            slow["class"] = "slow_during_drain"
            c["choreography"], c["slow_id"], c["slow"] = "claim_refused", slow["id"], slow
        cases.append(c)
    per = 3 if tier == "quick" else 40
    for cls in CLASSES:
        n = per
        if cls in ("paused_out", "timeout_504", "claim_refused", "client_abort"):
            n = 2 if tier == "quick" else 12
        for _ in range(n):
            add(cls)
    return cases


def rebuild_host(c, host):
    raw = bytes.fromhex(c["raw"])
    head, sep, body = raw.partition(b"\r\n\r\n")
    lines = head.split(b"\r\n")
    lines[1] = b"Host: " + host.encode()
    c = dict(c)
    c["raw"] = (b"\r\n".join(lines) + sep + body).hex()
    c["host"] = host
    return c


# ------------------------------------------------------------ unit level ----

ALPHABET = [["wh", 200], ["wh", 103], ["wh", 502], ["w", 5, 5], ["w", 5, 2], ["f"], ["hj"]]


def unit_request(rnd):
    hs = []
    if rnd.random() < 0.6:
        hs.append(("X-Request-Id", "rid-%04x" % rnd.randrange(1 << 16)))
    if rnd.random() < 0.4:
        hs.append(("X-Forwarded-For", rnd.choice(["203.0.113.9", "10.1.1.1, 10.2.2.2", ""])))
    if rnd.random() < 0.6:
        hs.append(("User-Agent", rnd.choice(["verif/1.0", ""])))
    if rnd.random() < 0.5:
        hs.append(("Content-Type", "application/x-verif"))
    if rnd.random() < 0.5:
        hs.append(("X-Custom-Req", "a"))
        if rnd.random() < 0.5:
            hs.append(("X-Custom-Req", "b"))
    if rnd.random() < 0.3:
        hs.append(("x-raw-lower", "not canonical in the map"))
    path = rnd.choice(["/", "/a/b", "/a%20b", "/x;y", ""])
    query = rnd.choice(["", "a=1&b=2", "p=a;b", "q=%41"])
    return {
        "method": rnd.choice(["GET", "POST", "HEAD", "PATCH"]),
        "uri": hx((path or "/") + ("?" + query if query else "")),
        "host": hx(rnd.choice(["example.com", "example.com:8080", "[::1]:80", ""])),
        "remote_addr": hx(rnd.choice(["192.0.2.1:1234", "[2001:db8::1]:443", "nonsense", "1.2.3.4", "a:b:c", "", "[::1]", "host:80"])),
        "proto": rnd.choice(["HTTP/1.1", "HTTP/1.0", "HTTP/2.0"]),
        "content_length": rnd.choice([-1, 0, 5, 123456789012]),
        "tls": rnd.random() < 0.4,
        "headers": [[hx(k), hx(v)] for k, v in hs],
    }


def distinct_names(rnd, pool):
    """Up to three names, no two with the same attribute name (a JSON object with duplicate keys cannot be read back)."""
    out = []
    for n in rnd.sample(pool, rnd.randint(0, 3)):
        if n.lower() not in [m.lower() for m in out]:
            out.append(n)
    return out


def unit_case(rnd, ops, hijacker, panic):
    ctx = None
    if rnd.random() < 0.8:
        ctx = {"service": hx(rnd.choice(["web", "", "svc-2"])), "target": hx(rnd.choice(["10.0.0.1:80", "", "t:3000"])),
               "req_headers": [hx(n) for n in distinct_names(rnd, ["X-Custom-Req", "x-custom-req", "User-Agent", "X-Absent", "x-raw-lower"])],
               "resp_headers": [hx(n) for n in distinct_names(rnd, ["X-Custom-Resp", "Set-Cookie", "set-cookie", "X-Absent"])]}
    rh = []
    if rnd.random() < 0.6:
        rh.append(("Content-Type", rnd.choice(["text/html; charset=utf-8", "text/plain"])))
    if rnd.random() < 0.5:
        rh.append(("Set-Cookie", "a=1"))
        rh.append(("Set-Cookie", "b=2"))
    if rnd.random() < 0.5:
        rh.append(("X-Custom-Resp", "r"))
    return {"kind": "unit", "req": unit_request(rnd), "ctx": ctx, "resp_headers": [[hx(k), hx(v)] for k, v in rh],
            "ops": ops, "hijacker": hijacker, "panic": panic,
            "http_port": rnd.choice([80, 8080, 0]), "https_port": rnd.choice([443, 8443, 0])}


def gen_unit_cases(seed, tier):
    import itertools
    rnd = random.Random(seed + 7)
    out = []
    depth = 2 if tier == "quick" else 3
    for n in range(depth + 1):
        for ops in itertools.product(ALPHABET, repeat=n):
            for hij in ("ok", "fail", "none"):
                if hij != "ok" and not any(o[0] == "hj" for o in ops):
                    continue
                out.append(unit_case(rnd, [list(o) for o in ops], hij, rnd.random() < 0.25))
    for _ in range(150 if tier == "quick" else 3000):
        k = rnd.randint(0, 8)
        ops = []
        for _ in range(k):
            o = list(rnd.choice(ALPHABET))
            if o[0] == "wh":
                o[1] = rnd.choice([100, 103, 200, 201, 301, 404, 499, 500, 502, 504, 101])
            if o[0] == "w":
                o[1] = rnd.choice([0, 1, 5, 4096, 100000])
                o[2] = rnd.choice([o[1], o[1], o[1] // 2, 0])
            ops.append(o)
        out.append(unit_case(rnd, ops, rnd.choice(["ok", "ok", "fail", "none"]), rnd.random() < 0.25))
    return out


# ---------------------------------------------------------------- Coq terms ----

def hstr(h):
    return str_lit(bytes.fromhex(h))


def headers_term(pairs, canon=False):
    out = []
    for k, v in pairs:
        kb = bytes.fromhex(k)
        if canon:
            kb = canonical(kb)
        out.append("(%s, %s)" % (str_lit(kb), hstr(v)))
    return list_lit(out)


TOKEN = set(b"!#$%&'*+-.^_`|~0123456789abcdefghijklmnopqrstuvwxyzABCDEFGHIJKLMNOPQRSTUVWXYZ")


def canonical(k):
    """textproto.CanonicalMIMEHeaderKey (only used to present what was SENT under the key net/http files it)."""
    if not all(c in TOKEN for c in k):
        return k
    out, up = bytearray(), True
    for c in k:
        ch = bytes([c])
        out += ch.upper() if up else ch.lower()
        up = c == 0x2d
    return bytes(out)


def record_term(r):
    def g(k):
        return hstr(r.get(k, ""))
    return "(mkRec %s %d %s %s %d %s %s %s (%d)%%Z %s %d %s %s %s %s %s %s %s %s %s)" % (
        g("host"), r.get("port", 0), g("path"), g("request_id"), r.get("status", 0), g("service"), g("target"), g("method"),
        r.get("req_content_length", 0), g("req_content_type"), r.get("resp_content_length", 0), g("resp_content_type"),
        g("client_addr"), g("client_port"), g("remote_addr"), g("user_agent"), g("proto"), g("scheme"), g("query"),
        list_lit(["(%s, %s)" % (hstr(k), hstr(v)) for k, v in r.get("extra", [])]))


def op_term(o, hijacker):
    if o[0] == "wh":
        return "OpWriteHeader %d" % o[1]
    if o[0] == "w":
        return "OpWrite %d %d" % (o[1], min(o[2], o[1]))
    if o[0] == "f":
        return "OpFlush"
    return "OpHijack %s" % bool_lit(hijacker == "ok")


def unit_term(c, o):
    rq = c["req"]
    q = "(mkReq %s %s %s %s %s %s (%d)%%Z %s %s)" % (
        hstr(rq["host"]), bool_lit(rq["tls"]), hstr(o["path"]), hstr(o["query"]), str_lit(rq["method"].encode()),
        str_lit(rq["proto"].encode()), rq["content_length"], hstr(rq["remote_addr"]), headers_term(rq["headers"]))
    if c["ctx"] is None:
        ctx = "None"
    else:
        x = c["ctx"]
        ctx = "(Some (mkCtx %s %s %s %s))" % (hstr(x["service"]), hstr(x["target"]),
                                                list_lit([hstr(n) for n in x["req_headers"]]),
                                                list_lit([hstr(n) for n in x["resp_headers"]]))
    i = "(mkUnitIn %d %d %s %s %s %s %s)" % (c["http_port"], c["https_port"], q, ctx, headers_term(c["resp_headers"]),
                                             list_lit([op_term(op, c["hijacker"]) for op in c["ops"]]), bool_lit(c["panic"]))
    return "CaseUnit %s %s" % (i, list_lit([record_term(r) for r in o["records"]]))


def class_term(c):
    cls, sc = c["class"], c["script"]
    nobody = c["method"] == "HEAD" or sc.get("status") in (204, 304)
    if cls == "early_hints":
        return "(CServedHints %d %d)" % (sc.get("status", 200), 0 if nobody else sc.get("body_len", 0))
    if cls in ("served_cl", "served_chunked", "served_head", "served_large", "served_204", "served_304", "target_404",
               "served_gen", "slow_during_drain"):
        return "(CServed %d %d)" % (sc.get("status", 200), 0 if nobody else sc.get("body_len", 0))
    if cls == "sse":
        return "(CServed 200 %d)" % sum(len("data: event %d\n\n" % i) for i in range(sc["events"]))
    if cls == "resp_too_large":
        return "(CRespTooLarge %d)" % sc["body_len"]
    if cls == "cut":
        return "(CCut %d %d)" % (sc.get("status", 200), min(sc["prefix_len"], sc["body_len"]))
    return {"no_route": "CNoRoute", "no_route_head": "CNoRoute", "paused_out": "CPausedOut", "stopped": "CStopped",
            "redirect": "CRedirect", "tls_refused": "CTlsRefused", "fault_502": "CFault502", "timeout_504": "CTimeout504",
            "req_too_large": "CReqTooLarge", "client_abort": "CClientAbort", "upgrade": "CUpgrade",
            "claim_refused": "CClaimRefused"}[cls]


def decoded_path(p):
    return urllib.parse.unquote_to_bytes(p)


def chain_term(svcs, c, client, target, claimed, records):
    by = {s["name"]: s for s in svcs}
    sv = by.get(c["service"], {})
    sent = [(bytes.fromhex(k), v) for k, v in c["headers"]]
    rid = [bytes.fromhex(v) for k, v in sent if canonical(k) == b"X-Request-Id"]
    i = "(mkChainIn %s %s %s %s %s %s %s %s %s %s %s %d %s)" % (
        class_term(c), str_lit(c["method"].encode()), str_lit(c["host"].encode()), str_lit(decoded_path(c["path"])),
        str_lit(c["query"].encode()), "(Some %s)" % str_lit(rid[0]) if rid else "None",
        headers_term([(k.hex(), v) for k, v in sent], canon=True), str_lit(c["service"].encode()),
        list_lit([hstr(n) for n in sv.get("log_req", [])]), list_lit([hstr(n) for n in sv.get("log_resp", [])]),
        bool_lit(sv.get("buffer", False)), sv.get("max_resp", 0), bool_lit(sv.get("custom", False)))
    st = client.get("status")
    trid = ""
    if target:
        for k, v in target["headers"]:
            if bytes.fromhex(k) == b"X-Request-Id":
                trid = v
    o = "(mkChainObs %s %s %d %s %s %s %s %s)" % (
        "None" if st is None else "(Some %d)" % st, bool_lit(bool(client.get("complete"))), client.get("body_len") or 0,
        headers_term(client.get("headers") or []), bool_lit(bool(target)), hstr(trid),
        list_lit([str_lit(t.encode()) for t in claimed]), list_lit([record_term(r) for r in records]))
    return "CaseChain %s %s" % (i, o)


KNOWN_IDS = {1: "C19-F1-head-error-page-length", 2: "C19-F2-server-generated-header-not-logged"}
FILES = ["common_test.go", "assets_test.go", "c19_test.go"]
IMPORTS = ("From KP Require Import model.Base model.Url model.ServiceMap model.Headers model.Buffer model.ProxyError "
           "model.ErrorPage model.Logging corr.C19corr.\nLocal Open Scope N_scope.")


def read_pages():
    d = os.path.join(REPO, "internal", "pages")
    out = {}
    for f in sorted(os.listdir(d)):
        m = re.fullmatch(r"(\d+)\.html", f)
        if m:
            b = open(os.path.join(d, f), "rb").read()
            if b"{{" not in b:
                out[int(m.group(1))] = b
    return out


CUSTOM_STATIC = {404: b"custom404", 502: b"custom502"}     # harness/assets_test.go pages_good (503.html takes a message)


def evaluate(work, name, terms):
    pages = read_pages()
    keys = sorted(pages)
    tb = "mkTables %s %s" % (list_lit(["(%d, pg pages %d)" % (k, i) for i, k in enumerate(keys)]),
                             list_lit(["(%d, %s)" % (k, str_lit(v)) for k, v in sorted(CUSTOM_STATIC.items())]))
    body = ("Definition pages : list str := %s.\nDefinition tb : tables := %s.\n"
            "Definition cases : list c19_case := %s.\nDefinition R := Eval vm_compute in failures tb cases.\n") % (
        list_lit([str_lit(pages[k]) for k in keys]), tb, "[\n" + ";\n".join(terms) + "]")
    return parse_failures(coq_eval(work, name, IMPORTS, body, "R"))


def execute(work, units, cases):
    write_jsonl(work.path("units.jsonl"), units)
    write_jsonl(work.path("cases.jsonl"), cases)
    for f in ("uobs.jsonl", "obs.jsonl"):
        if os.path.exists(work.path(f)):
            os.remove(work.path(f))
    rc, out = go_test(work, FILES, "^TestVerifC19Unit$",
                      {"VERIF_IN": work.path("units.jsonl"), "VERIF_OUT": work.path("uobs.jsonl")})
    rc2, out2 = go_test(work, FILES, "^TestVerifC19$",
                        {"VERIF_IN": work.path("cases.jsonl"), "VERIF_OUT": work.path("obs.jsonl")})
    ok = rc == 0 and rc2 == 0 and os.path.exists(work.path("uobs.jsonl")) and os.path.exists(work.path("obs.jsonl"))
    uobs = read_jsonl(work.path("uobs.jsonl")) if ok else []
    obs = read_jsonl(work.path("obs.jsonl")) if ok else []
    if ok and (len(uobs) != len(units) or len(obs) != len(cases) or any(o.get("kind") != "req" for o in obs[1:])):
        ok = False
    return ok, out + out2, uobs, obs


def flatten(cases, obs):
    """Chain cases incl. the slow requests of the claim-refused choreography: (case, client, target, claimed, records)."""
    out = []
    for c, o in zip(cases[1:], obs[1:]):
        out.append((c, o.get("client") or {}, o.get("target"), o.get("claimed") or [], o.get("records") or []))
        if "slow" in c:
            out.append((c["slow"], o.get("slow_client") or {}, o.get("slow_target"), o.get("slow_claimed") or [],
                        o.get("slow_records") or []))
    return out


def judge(work, svcs, all_cases):
    failing, known = {}, {}
    shard = 150
    jobs = []
    for s in range(0, len(all_cases), shard):
        terms = [unit_term(c, o) if k == "unit" else chain_term(svcs, *c) for (k, c, o) in all_cases[s:s + shard]]
        jobs.append((s, terms))
    from concurrent.futures import ThreadPoolExecutor

    def ev(job):
        s, terms = job
        return s, evaluate(work, "Cases_%d" % s, terms)
    with ThreadPoolExecutor(max_workers=12) as ex:
        for s, fl in ex.map(ev, jobs):
            for (j, a, m) in fl:
                if j >= 10000:
                    known.setdefault(s + j % 10000, {})[j // 10000] = a
                else:
                    failing[s + j] = (a, m)
    return failing, known


def describe(item):
    k, c, o = item
    if k == "unit":
        return {"kind": "unit", "case": c, "observed": o}
    case, client, target, claimed, records = c
    return {"kind": "chain", "case": {x: y for x, y in case.items() if x != "slow"}, "client": client, "target": target,
            "claimed": claimed, "records": [decode_record(r) for r in records]}


def decode_record(r):
    out = {}
    for k, v in r.items():
        if k == "extra":
            out[k] = [[bytes.fromhex(a).decode("latin1"), bytes.fromhex(b).decode("latin1")] for a, b in v]
        elif isinstance(v, str):
            out[k] = bytes.fromhex(v).decode("latin1")
        else:
            out[k] = v
    return out


def run(tier, seed):
    res = Result(PROP, tier, seed)
    work = Work(PROP)
    try:
        ok, blog = coq_build(["props/C19.vo", "corr/C19corr.vo"])
        proofs_ok, pa = proof_obligations(work, res, "C19.v", ok, blog)
        units = gen_unit_cases(seed, tier)
        cases = gen_cases(seed, tier)
        svcs = cases[0]["services"]
        harness_ok, out, uobs, obs = execute(work, units, cases)
        chain = flatten(cases, obs) if harness_ok else []
        all_cases = [("unit", c, o) for c, o in zip(units, uobs)] + [("chain", x, None) for x in chain]
        failing, known = {}, {}
        if harness_ok and ok:
            try:
                failing, known = judge(work, svcs, all_cases)
            except RuntimeError as ex:
                harness_ok, out = False, out + "\n" + str(ex)
        listed = {e["id"]: e for e in known_findings(PROP)}
        real_mon, disagree, known_hits = [], [], {}
        for j, (a, m) in sorted(failing.items()):
            if not m:
                ks = known.get(j, {})
                if ks and all(ks.values()) and all(KNOWN_IDS.get(k) in listed for k in ks):
                    for k in ks:
                        known_hits.setdefault(k, []).append(j)
                    if not a:
                        disagree.append(j)
                else:
                    real_mon.append(j)
            elif not a:
                disagree.append(j)
        for k, js in sorted(known_hits.items()):
            res.known_finding("%s: %s (%d case(s) this run, e.g. case %d)" % (
                KNOWN_IDS[k], listed[KNOWN_IDS[k]]["what"][:160], len(js), js[0]))
        dist, outcomes = {"unit": len(units)}, {}
        for (c, client, target, claimed, records) in chain:
            dist[c["class"]] = dist.get(c["class"], 0) + 1
            key = "%s -> client %s, %d record(s), logged %s" % (
                c["class"], client.get("status"), len(records), records[0].get("status") if records else None)
            outcomes[key] = outcomes.get(key, 0) + 1
        distinct = len({json.dumps(c, sort_keys=True) for c in units}) + len({c["raw"] + json.dumps(c["script"], sort_keys=True) for (c, *_r) in chain})
        res.coverage.update({
            "evaluations": len(all_cases), "distinct_nontrivial": distinct,
            "rule": "unit level: every call sequence up to length %d over {WriteHeader 200/103/502, full and partial Write, Flush, Hijack} "
                    "x Hijacker present/failing/absent, plus random longer sequences, random request fields and header lists, 25%% "
                    "panicking handlers; chain level: every ending class (served CL/chunked/HEAD/large/204/304/target-404/103, no route, "
                    "paused-out, stopped, redirect, TLS-refused, 502, 504, 413, buffered-overflow 500, client abort, upgrade, SSE, cut "
                    "mid-body, claim refused during a drain, server-generated header) x random header lists to log (odd casing, absent, "
                    "multi-valued) x X-Request-ID supplied/generated x query strings; a case is distinct by its JSON / raw request" % (
                        2 if tier == "quick" else 3),
            "input_distribution": dist, "outcome_distribution": outcomes,
            "samples": [units[0], units[len(units) // 2], {k: v for k, v in cases[1].items() if k != "raw"}],
            "correspondence": {"cases": len(all_cases), "disagreements": len(disagree), "monitor_failures": len(real_mon),
                               "monitor_failures_matching_known_findings": sum(len(v) for v in known_hits.values())},
        })
        res.assumptions = [
            "model/Logging.v is hand-written; tied to logging_middleware.go and to the handler chain only by this correspondence run",
            "that a deferred call runs exactly once on return and on panic is Go semantics (observed: panicking handlers at unit level, "
            "http.ErrAbortHandler at chain level)",
            "the status 'the client is told' follows net/http's rules for WriteHeader/Write/Hijack (model Logging.client_status); "
            "duration, time, level and the order of the custom attributes in the JSON line are not compared",
            "records are matched to requests by the /c<id> marker in the path; configured header names are distinct and do not "
            "collide with the fixed attribute names (Content-Type / Content-Length as a configured name would duplicate a JSON key)",
        ]
        if real_mon:
            j = real_mon[0]
            p = describe(all_cases[j])
            p.update({"property": PROP, "what": "monitor false on an implementation observation", "seed": seed, "tier": tier,
                      "index": j, "services": svcs, "replay": "python3 /verif/tools/c19.py replay <this file>"})
            res.violation("monitor-%d" % j, p)
        elif disagree or not harness_ok or not proofs_ok:
            what = ("model and implementation disagree" if disagree else
                    "harness does not build/run against the tree" if not harness_ok else "proof obligations of props/C19.v do not check")
            payload = {"property": PROP, "what": what, "seed": seed, "tier": tier,
                       "broken": "corr.C19corr.unit_agree / chain_agree (model/Logging.v vs logging_middleware.go and the chain)"
                                 if disagree or not harness_ok else "props/C19.v"}
            if disagree:
                payload.update(describe(all_cases[disagree[0]]))
                payload["services"] = svcs
            if not harness_ok:
                payload["harness_output"] = out[-3000:]
            if not proofs_ok:
                payload["coq_output"] = (blog + pa)[-3000:]
            res.violation("broken", payload, no_input=True)
        return res.finish()
    finally:
        work.cleanup()


def replay(path):
    p = json.load(open(path))
    work = Work(PROP + "replay")
    try:
        units, cases = [], [{"kind": "config", "timeout_ms": TIMEOUT_MS, "services": p.get("services") or services(random.Random(1))}]
        if p["kind"] == "unit":
            units.append(p["case"])
        else:
            cases.append(p["case"])
        ok, out, uobs, obs = execute(work, units, cases)
        if not ok:
            print(out[-3000:])
            return 2
        chain = flatten(cases, obs)
        all_cases = [("unit", c, o) for c, o in zip(units, uobs)] + [("chain", x, None) for x in chain]
        print(json.dumps(describe(all_cases[0]), indent=1, sort_keys=True)[:6000])
        failing, known = judge(work, cases[0]["services"], all_cases)
        a, m = failing.get(0, (True, True))
        print("agrees with the model: %s   monitor: %s   known findings matched: %s" % (
            a, m, [KNOWN_IDS[k] for k in known.get(0, {})]))
        return 0 if m else 1
    finally:
        work.cleanup()


if __name__ == "__main__":
    if len(sys.argv) == 3 and sys.argv[1] == "replay":
        sys.exit(replay(sys.argv[2]))
    print("usage: c19.py replay <replay file>")
    sys.exit(2)
