"""C02 — no request fails while a service is redeployed."""
import forced
import m5
from m5check import run_property

SEC, MS = m5.SEC, m5.MS
BEH = ["reply", "reply", "reply", "delay:%d" % (100 * MS), "delay:%d" % (900 * MS), "delay:%d" % (1 * SEC), "delay:%d" % (2 * SEC),
       "delay:%d" % (3 * SEC - 1), "delay:%d" % (3 * SEC), "delay:%d" % (3 * SEC + 1), "delay:%d" % (6 * SEC),
       "stream:%d" % (500 * MS), "stream:%d" % (2 * SEC), "stream:%d" % (3 * SEC - 1), "stream:%d" % (5 * SEC)]
PROFILES = [
    {"requests": 2.5, "deploys": 1.5, "pause": 0, "rollout": 0.0, "remove": 0, "flap": 0, "flap_targets": False, "behaviours": BEH,
     "fail_deploys": 0.15, "yields": 0.9, "initial_all": True, "cooldown": 9 * SEC, "overlap": 0.1, "actions": (18, 55),
     "points": ["req:routed", "req:gate-passed", "req:lb-picked", "req:claimed", "deploy:found", "deploy:healthy",
                "deploy:slot-updated", "deploy:installed", "drain:marked", "probe:applied"]},
    {"requests": 3.0, "deploys": 2.0, "pause": 0, "rollout": 0.5, "remove": 0, "flap": 0, "flap_targets": False, "behaviours": BEH,
     "fail_deploys": 0.0, "yields": 0.3, "services": [b"web"], "initial_all": True, "cooldown": 9 * SEC, "overlap": 0.1,
     "actions": (18, 55),
     "points": ["req:routed", "req:lb-picked", "deploy:slot-updated", "deploy:installed", "probe:applied"]},
]


def run(tier, seed):
    import m5check
    m5check.TRUNC_FN = "c02_trunc_bad"
    return run_property(
        "C02", tier, seed, "C02.v", "C02corr", "c02_check", PROFILES, n_quick=36, n_thorough=1200,
        codes={"1": "request answered 404", "2": "request answered 502", "3": "request answered 503",
               "4": "request answered 504 without having been cut off at a drain deadline", "5": "200 not from a target",
               "6": "other status", "7": "request cut off by a drain before the drain deadline"},
        finding_id="C02-D2-routing-claim-race",
        finding_what="a request that was already routed when its target began draining (redeploy swap) is refused with 503",
        assumptions=["every lock region of the Go code is one atomic step (runs use GOMAXPROCS(1); data-race freedom is C18's concern)",
                     "targets answer 200; scripted probe and target transports replace the network",
                     "model/M5full.v is hand-written; tied to the code by acceptance of every recorded trace",
                     "requests of a service on which two commands overlapped (a command issued before the previous one on that service "
                     "returned) are not judged from then on: the property quantifies over successive redeploys (observation D14)"],
        forced=[forced.d2_refused_during_redeploy(), forced.deploy_waits_for_rotation(), forced.drain_grants_the_drain_timeout(),
                forced.stale_probe_result_after_the_deploy(), forced.record_of_an_ended_request_is_not_the_new_one(),
                forced.streamed_response_runs_on_while_draining(), forced.redeploy_of_a_sub_path_service_keeps_the_tls_policy(),
                forced.rollout_redeploy_keeps_serving_the_rollout_group_while_it_waits(),
                forced.probe_slower_than_the_interval_but_within_its_timeout(),
                forced.redeploy_with_custom_error_pages(), forced.drain_outlasts_the_target_timeout()])
