#!/bin/bash
# usage: seedq.sh <PROP> <round-suffix e.g. r5>  -- confirms both delivered changes of /var/tmp/mut-<PROP>-<round>-out and runs the property's check
P=$1; R=$2
cd /verif
for k in 1 2; do
  src=/var/tmp/mut-$P-$R-out/$k
  [ -f $src/patch.diff ] || { echo "$P-$R-$k: no patch"; continue; }
  python3 tools/seedcheck.py $P $src $P-$R-$k > .work/seedcheck-$P-$R-$k.log 2>&1
  python3 - <<EOF
import json
m=json.load(open('/verif/seeded/$P-$R-$k/meta.json'))
print('$P-$R-$k', 'confirmed' if m.get('confirmed') else 'NOT-CONFIRMED', {c:(r['exit'], [l[:160] for l in r['lines']]) for c,r in m.get('checks',{}).items()} if isinstance(m.get('checks'),dict) else m.get('checks'))
EOF
done
