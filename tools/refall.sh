#!/bin/bash
# Re-runs every recorded harmless rewrite against the check of its property: each must stay quiet.  usage: refall.sh [glob]
cd /verif
for d in harmless/${1:-*}/; do
  s=$(basename $d)
  [ -f $d/patch.diff ] || continue
  P=$(python3 -c "import json; print(json.load(open('$d/meta.json'))['property'])" 2>/dev/null) || continue
  WT=/var/tmp/refrun-$s-$$
  git -C /repo worktree add -q --detach $WT HEAD || continue
  if ( cd $WT && { git apply /verif/$d/patch.diff 2>/dev/null || git apply -3 /verif/$d/patch.diff 2>/dev/null; } ); then
    out=$(VERIF_REPO=$WT ./check $P quick 2>&1); rc=$?
    echo "$s $P exit=$rc $(echo "$out" | grep -c '^VIOLATION') violation(s) $(echo "$out" | grep '^VIOLATION' | head -1 | cut -c1-120)"
  else
    echo "$s $P patch-does-not-apply"
  fi
  git -C /repo worktree remove --force $WT
done
