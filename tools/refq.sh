#!/bin/bash
# usage: refq.sh <PROP>...  -- runs the property's check against the three harmless rewrites delivered in /var/tmp/ref-<PROP>-out
cd /verif
for P in "$@"; do
  for k in 1 2 3; do
    src=/var/tmp/ref-$P-out/$k
    [ -f $src/patch.diff ] || { echo "$P-h$k: no patch"; continue; }
    python3 tools/refcheck.py $P $src $P-h$k 2>&1 | grep -v conda
  done
done
