"""Prints the "do not reuse" list for one property from the seed tables of DESIGN.md (input of tools/mutprompt.py).  usage: avoid.py C04"""
import re,sys
pid=sys.argv[1]
out=[]
for l in open('/verif/DESIGN.md'):
    if l.startswith('| '+pid+'-'):
        cols=[c.strip() for c in l.strip().strip('|').split('|')]
        out.append(cols[1])
print('; '.join(out))
