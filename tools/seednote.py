#!/usr/bin/env python3
"""usage: seednote.py <seed-id> <check> <violation-line> <note>  -- records in seeded/<id>/meta.json that a check catches the
change after it was strengthened"""
import json, sys
sid, chk, line, note = sys.argv[1:5]
p = "/verif/seeded/%s/meta.json" % sid
d = json.load(open(p))
d.setdefault("checks_after_strengthening", {})[chk] = {"exit": 1, "lines": [line]}
if chk not in d.get("detected_by", []):
    d["detected_by"] = d.get("detected_by", []) + [chk]
d["note"] = note
json.dump(d, open(p, "w"), indent=1)
