import sys; sys.path.insert(0,'/verif/tools')
from vlib import *
import m4, random
rnd=random.Random(int(sys.argv[1]) if len(sys.argv)>1 else 1)
n=int(sys.argv[2]) if len(sys.argv)>2 else 6
variant=sys.argv[3] if len(sys.argv)>3 else "pinned"
hists=[m4.gen_history(rnd, rnd.randint(4,14)) for _ in range(n)]
mats=[[m4.matrix(rnd,h) for _ in h] for h in hists]
work=Work("m4dev")
ok,gout,outs,texts=m4.run_histories(work,hists,mats,variant=variant)
print(ok, gout[-2000:] if not ok else "")
if ok:
    res=m4.parse_hist_results(texts,len(hists))
    for i,(mis,mon) in enumerate(res):
        print(i,mis[:10])
        for (st,what) in mis[:3]:
            c=hists[i][st]
            print("   step",st,c, "what",what)
            r={x["id"]:x for x in outs[i]["results"]}
            print("   result",r["c%d"%st]["result"])
            if what==3: print("   statefile", json.dumps(r["o%d"%st]["state_file"])[:1500])
            if what==2: print("   list", r["o%d"%st]["list"])
            if what>=5:
                q=mats[i][st][what-5]; print("   req",q, {k:v for k,v in r["q%d_%d"%(st,what-5)].items() if k!='body'})
import shutil
if '--keep' in sys.argv: print(work.dir)
else: work.cleanup()
