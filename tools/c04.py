"""C04 — routing: exact host, then wildcard, then default; longest path prefix
wins; independent of the command order that produced the table."""
import random

import m4
import m4check
from vlib import *

HOSTS = [b"a.b.c", b"*.b.c", b"b.c", b"*.c", b"x.a.b.c", b"single", b"[::1]", b"[2001:db8::1]", b"example.com", b"*.example.com",
         b"A.b.C", b"*.B.c"]      # spelled with capitals: the table is keyed by the spelling given at deploy time
PREFIXES = [b"/", b"/api", b"/apiary", b"/api/v1", b"/api/v1/", b"api", b"/a", b"/a/b", b"//x", b"/x//y", b"/app/", b"/a/b/c", b"/api/v1/users"]
REQ_HOSTS = [b"a.b.c", b"a.b.c:8080", b"z.b.c", b"b.c", b"b.c:80", b"x.a.b.c", b"y.x.a.b.c", b"single", b"single:1", b"other",
             b"[::1]", b"[::1]:80", b"[2001:db8::1]:8443", b"[2001:db8::1]", b"example.com", b"www.example.com:443", b".b.c", b"c", b"",
             b"A.B.C", b"a.b.c.", b"a.b.c:", b":80",
             b"A.b.C", b"A.b.C:8080", b"z.B.c", b"z.B.c:443"]
REQ_PATHS = [b"/", b"/api", b"/api/", b"/apiary", b"/apiary/x", b"/api/v1", b"/api/v1/users", b"/api/v10", b"/apix", b"/a", b"/a/",
             b"/a/b", b"/a/bc", b"/a/b/c", b"/a/b/c/d", b"/a/b/cd", b"/api/v1/users/7", b"//x", b"//x/y", b"/x//y", b"/x//y/z", b"/x/y", b"/app", b"/app/", b"/app/z", b"/ap",
             b"/api%2Fv1", b"/%61pi", b"/api/../x", b"/API"]


def gen_table(rnd):
    names = [b"s%d" % i for i in range(rnd.randint(1, 6))]
    svcs = []
    for i, n in enumerate(names):
        svcs.append({"op": "deploy", "name": n, "hosts": rnd.sample(HOSTS, rnd.choice([0, 1, 1, 2, 3])),
                     "prefixes": rnd.sample(PREFIXES, rnd.choice([0, 1, 1, 2, 3])), "tls": False, "tls_redirect": False,
                     "strip": rnd.random() < 0.5, "cert": "none", "pages": "none", "topts": 0,
                     "targets": [{"name": b"t%d-%d:80" % (i, k), "healthy": True} for k in range(rnd.choice([1, 2]))]})
    return svcs


def gen_small_table(rnd):
    """degenerate tables: one or two services with a single binding each (no host / one host / a wildcard; mostly a non-root
    prefix) - the shapes for which an implementation is tempted to short-cut the lookup"""
    svcs = []
    for i in range(rnd.choice([1, 1, 1, 2])):
        svcs.append({"op": "deploy", "name": b"s%d" % i, "hosts": rnd.choice([[], [], [rnd.choice(HOSTS)]]),
                     "prefixes": [rnd.choice(PREFIXES[1:] + [b"/"])], "tls": False, "tls_redirect": False,
                     "strip": rnd.random() < 0.5, "cert": "none", "pages": "none", "topts": 0,
                     "targets": [{"name": b"t%d-0:80" % i, "healthy": True}]})
    if len(svcs) == 2 and svcs[0]["hosts"] == svcs[1]["hosts"] and svcs[0]["prefixes"] == svcs[1]["prefixes"]:
        svcs.pop()
    return svcs


def directed_tables():
    """hand-made tables: prefixes of ONE service nested inside each other with another service's prefix strictly between them
    (three levels on one host; on the default host; with a wildcard level above)"""
    def svc(name, hosts, prefixes, k):
        return {"op": "deploy", "name": name, "hosts": hosts, "prefixes": prefixes, "tls": False, "tls_redirect": False, "strip": k % 2 == 0,
                "cert": "none", "pages": "none", "topts": 0, "targets": [{"name": b"t" + name + b":80", "healthy": True}]}
    out = []
    for hosts in ([b"a.b.c"], [], [b"*.b.c"], [b"a.b.c", b"b.c"]):
        out.append([svc(b"s0", hosts, [b"/a", b"/a/b/c"], 0), svc(b"s1", hosts, [b"/a/b"], 1)])
        out.append([svc(b"s0", hosts, [b"/api", b"/api/v1/users"], 1), svc(b"s1", hosts, [b"/api/v1"], 0), svc(b"s2", hosts, [b"/"], 1)])
        out.append([svc(b"s0", hosts, [b"/", b"/a/b"], 0), svc(b"s1", hosts, [b"/a"], 0), svc(b"s2", hosts, [b"/a/b/c"], 1)])
    return out


def run(tier, seed):
    prop = "C04"
    res = Result(prop, tier, seed)
    work = Work(prop)
    try:
        ok, blog = coq_build(["props/C04.vo", "props/C04cmd.vo", "corr/M4corr.vo", "corr/C04cmd.vo"])
        proofs_ok, pa = proof_obligations_multi(work, res, ["C04.v", "C04cmd.v"], ok, blog)
        rnd = random.Random(seed)
        n_tables = 25 if tier == "quick" else 400
        n_req = 40 if tier == "quick" else 120
        hists, mats = [], []
        dtables = directed_tables()
        if tier == "quick":
            dtables = [t for i, t in enumerate(dtables) if i % 2 == seed % 2]
        for ti in range(len(dtables) + n_tables):
            tbl = dtables[ti] if ti < len(dtables) else (gen_small_table(rnd) if ti % 4 == 3 else gen_table(rnd))
            reqs = [{"host": rnd.choice(REQ_HOSTS), "uri": rnd.choice(REQ_PATHS), "tls": False, "cookie": None,
                     "method": rnd.choice(["GET", "POST"])} for _ in range(n_req)]
            for variant in range(3):
                order = tbl[:]
                rnd.shuffle(order)
                h = list(order)
                if variant == 1:                       # redeploys and a removed extra service on the way
                    extra = dict(rnd.choice(tbl))
                    # a service that comes and goes on hosts the request matrix asks for: its bindings must leave no
                    # trace (a request for its former exact host falls back to the wildcard / default level again)
                    gone_hosts = rnd.sample([b"z.b.c", b"other", b"www.example.com", b"y.x.a.b.c", b"c", b"single"], rnd.choice([1, 2]))
                    extra = dict(extra, name=b"gone", hosts=gone_hosts, prefixes=rnd.choice([[b"/"], [b"/api"], [b"/", b"/a"]]),
                                 targets=[{"name": b"tgone:80", "healthy": True}])
                    h = [extra] + h[:1] + h + [{"op": "remove", "name": b"gone"}]
                if variant == 1 and rnd.random() < 0.5:
                    # every service is first deployed on its final hosts with OTHER prefixes, then redeployed with the final
                    # ones: routing must follow the prefixes of the last deploy
                    pre = []
                    for c in order:
                        alt = [p for p in rnd.sample(PREFIXES, rnd.choice([1, 2])) if p not in c["prefixes"]] or [b"/zz-old"]
                        pre.append(dict(c, prefixes=alt, targets=[{"name": b"told-" + c["name"] + b":80", "healthy": True}]))
                    h = pre + h
                if variant == 2:                       # through a restart
                    k = rnd.randint(0, len(h))
                    h = h[:k] + [{"op": "restart"}] + h[k:]
                # targeted queries: every binding any command of this history ever named (also the ones a later redeploy or
                # removal took away again) is asked for, at the prefix and below it
                tq, seen = [], set()
                for c in h:
                    if c.get("op") != "deploy":
                        continue
                    for hh in (c["hosts"] or [b"other"]):
                        ch = hh.replace(b"*", b"w") if hh.startswith(b"*") else hh
                        for pp in (c["prefixes"] or [b"/"]):
                            np = b"/" + pp.strip(b"/")
                            for path in (np, np.rstrip(b"/") + b"/zz"):
                                if (ch, path) not in seen and len(tq) < 40:
                                    seen.add((ch, path))
                                    tq.append({"host": ch, "uri": path, "tls": False, "cookie": None, "method": "GET"})
                hists.append(h)
                # the targeted queries after EVERY command (a stale index may be healed by a later rebuild), the matrix at the end
                mats.append([list(tq) for _ in h[:-1]] + [reqs + tq])
        harness_ok, gout, outs = m4check.go_run(work, hists, mats)
        results = []
        if harness_ok and ok:
            terms = [m4.history_term(h, m, o) for h, m, o in zip(hists, mats, outs)]
            results = m4check.coq_run(work, terms, "(fun h => (%s h, c04_ok h && c04_cmd_ok h))" % m4check.MIS, shard=6, tag=prop)
        statuses = {}
        for o in outs:
            for r in o["results"]:
                if r.get("op") == "request":
                    statuses[str(r["status"])] = statuses.get(str(r["status"]), 0) + 1
        res.coverage.update({
            "evaluations": sum(statuses.values()), "distinct_nontrivial": len(hists),
            "rule": "random tables of 1..6 services (every fourth table degenerate: one or two services with a single binding each) over colliding hosts (exact, wildcard, default, single-label, IPv6 literals) and "
                    "prefixes (look-alikes, trailing slashes, empty segments), each deployed in 3 command orders (shuffled; with "
                    "redeploys and a removed service; through a restart) and queried with a Host x path matrix through Router.ServeHTTP; "
                    "evaluations = route queries, distinct_nontrivial = histories",
            "tables": n_tables + len(dtables), "status_mix": statuses,
            "samples": [[{k: str(v) for k, v in c.items()} for c in hists[0]]],
            "correspondence": {"histories": len(hists), "with_mismatch": len([r for r in results if r[0]]),
                               "monitor_failures": len([r for r in results if not r[1]])},
        })
        res.assumptions = ["model/ServiceMap.v hand-written; tied to service_map.go by this run", "net.SplitHostPort and net/url path decoding modelled, not verified"]
        mon_fail = [i for i, r in enumerate(results) if not r[1]]
        disagree = [i for i, r in enumerate(results) if r[0] and r[1]]
        js = lambda x: json.loads(json.dumps(x, default=lambda b: b.decode("latin1")))
        if mon_fail:
            i = mon_fail[0]
            res.violation("monitor-%d" % i, {"property": prop, "what": "a request was not served by the service the routing rule selects (for the table in the state file: c04_ok; for the "
                                                     "bindings as commanded by the successful deploys / removes of the history: c04_cmd_ok)",
                                             "history": js(hists[i]), "requests": js(mats[i][-1]), "mismatches": results[i][0],
                                             "seed": seed, "tier": tier})
        elif disagree or not harness_ok or not proofs_ok:
            pl = {"property": prop, "seed": seed, "tier": tier,
                  "what": "model and implementation disagree (corr.M4corr.check_history)" if disagree else
                          "harness does not build/run" if not harness_ok else "props/C04.v does not check"}
            if disagree:
                pl.update({"history": js(hists[disagree[0]]), "mismatches": results[disagree[0]][0]})
            if not harness_ok:
                pl["harness_output"] = gout[-3000:]
            if not proofs_ok:
                pl["coq_output"] = (blog + pa)[-3000:]
            res.violation("broken", pl, no_input=True)
        return res.finish()
    finally:
        work.cleanup()
