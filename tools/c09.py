"""C09 — only healthy targets receive traffic, in fair rotation.

Proof obligations of props/C09.v (theorems about every trace accepted by the
load-balancer acceptor model/M5lb.v); correspondence: scenarios on the real
code under the virtual clock — 1-4 targets whose probes flap, all fail, recover
one after the other, answer slowly; bursts of requests between the probes,
requests parked across a rebuild of the rotation; redeploys; a small family with
drains (suspected defect D12) — every recorded trace must be accepted by the
model, and the monitors corr/C09corr.c09_ok / c09_rebuild_ok / c09_cadence are
evaluated on it."""
import random

import c01
import m4x
import m5
import m5lb
from vlib import *

SEC, MS = m5.SEC, m5.MS
H = m5.H
INTERVAL = SEC
FAILS = ["refused", "status:503", "status:500", "status:302"]


def probe_seq(rnd, kind, ticks, ptimeout):
    """Outcome per probe (one per tick, roughly); the first one must let the deploy succeed."""
    def f():
        x = rnd.random()
        if x < 0.7:
            return rnd.choice(FAILS)
        if x < 0.85:
            return "slow:%d" % (ptimeout + 1)
        return "slow:%d:503" % rnd.choice([100 * MS, 300 * MS])

    def g():
        return "ok" if rnd.random() < 0.85 else "slow:%d" % rnd.choice([100 * MS, 300 * MS, ptimeout - 1])
    if kind == "steady":
        return [g() for _ in range(rnd.randint(1, 3))] + ["ok"]
    if kind == "flap":
        return ["ok"] + [g() if rnd.random() < 0.55 else f() for _ in range(ticks)] + ["ok"]
    if kind == "dies":
        k = rnd.randint(1, ticks - 1)
        return ["ok"] * k + [f()]
    if kind == "outage":      # fails from tick a to b, then recovers
        a = rnd.randint(1, max(1, ticks - 3))
        b = rnd.randint(a + 1, ticks)
        return ["ok"] * a + [f() for _ in range(b - a)] + ["ok"]
    if kind == "late":        # a failure first (the deploy waits for it)
        return [rnd.choice(FAILS)] + ["ok"] * rnd.randint(1, 3) + [f(), "ok"]
    raise ValueError(kind)


def gen_scenario(rnd, shape):
    b = c01.Builder(rnd)
    b.meta["shape"] = shape
    host, name = b"a.example.com", b"web"
    ptimeout = rnd.choice([500 * MS, 500 * MS, 2 * SEC])
    k, ticks = shape["k"], shape["ticks"]
    mix = shape["mix"]
    if mix == "flap":
        kinds = [rnd.choice(["flap", "flap", "steady", "late"]) for _ in range(k)]
    elif mix == "all_fail":            # every target fails over a common window
        a = rnd.randint(1, 3)
        kinds = None
        scripts = [["ok"] * a + [rnd.choice(FAILS)] * rnd.randint(2, 3) + ["ok"] for _ in range(k)]
    elif mix == "staggered":           # all fail at tick a, recover one after the other
        a = rnd.randint(1, 2)
        kinds = None
        scripts = [["ok"] * a + [rnd.choice(FAILS)] * (2 + i) + ["ok"] for i in range(k)]
    elif mix == "dies":
        kinds = [rnd.choice(["dies", "steady", "outage"]) for _ in range(k)]
    else:                              # "burst": healthy set fixed, many requests
        kinds = ["steady"] * k
    if kinds is not None:
        scripts = [probe_seq(rnd, kd, ticks, ptimeout) for kd in kinds]
    for p in shape["arms"]:
        b.arm(p, 1)
    b.deploy(name, host, scripts, 5 * SEC, ptimeout, async_=False)
    t = 0
    total = ticks * SEC
    parked = list(shape["arms"])
    while t < total:
        step = rnd.choice([1, 100 * MS, 300 * MS, 500 * MS, 700 * MS, 1 * SEC, 1 * SEC, 1 * SEC + 1, 1500 * MS])
        b.sleep(step)
        t += step
        n = rnd.choice([0, 1, 2, 3, 3, 5, 7]) if mix != "burst" else rnd.choice([3, 5, 8, 11])
        for _ in range(n):
            b.request(host, "burst")
        b.sleep(0)
        if parked and rnd.random() < 0.5:
            p = parked.pop()
            b.release(p)
            b.sleep(0)
    if shape["redeploy"]:
        b.deploy(name, host, [["ok"] for _ in range(rnd.choice([1, 2, 3]))], 3 * SEC, ptimeout, async_=True)
        b.sleep(rnd.choice([0, 200 * MS]))
        for _ in range(rnd.randint(2, 5)):
            b.request(host, "after-redeploy")
        b.sleep(1200 * MS)
        for _ in range(rnd.randint(1, 3)):
            b.request(host, "after-redeploy")
    return b.finish()


def gen_cursor_sweep(k, pos, f):
    """k healthy targets; `pos` requests put the round-robin cursor on a chosen slot; then target f fails a probe (the
    rotation shrinks under the cursor), requests, the target recovers, requests: strict rotation over the healthy set must
    go on from every cursor position (in particular from the LAST slot of the rotation that shrinks)."""
    b = c01.Builder(random.Random(k * 100 + pos * 10 + f))
    b.meta["shape"] = {"mix": "cursor-sweep", "k": k, "pos": pos, "fails": f}
    host, name = b"a.example.com", b"web"
    scripts = [["ok"] for _ in range(k)]
    scripts[f] = ["ok", "refused", "refused", "ok"]          # fails the probes at 1 s and 2 s, recovers at 3 s
    b.deploy(name, host, scripts, 5 * SEC, 500 * MS, async_=False)
    for _ in range(pos):
        b.request(host, "burst")
    b.sleep(1 * SEC + 100 * MS)
    for _ in range(2 * k + 1):
        b.request(host, "burst")
    b.sleep(2 * SEC)
    for _ in range(2 * k + 1):
        b.request(host, "burst")
    return b.finish()


def gen_gone(k, f):
    """the process behind target f goes away between two health checks: requests sent to it are refused (a dial error,
    502), then its probes are refused too; requests keep arriving. Once the failing probe result is applied the target
    must be out of the rotation, and it returns when a probe succeeds again."""
    b = c01.Builder(random.Random(k * 10 + f))
    b.meta["shape"] = {"mix": "gone", "k": k, "fails": f}
    host, name = b"a.example.com", b"web"
    scripts = [["ok"] for _ in range(k)]
    scripts[f] = ["ok", "ok", "refused", "refused", "ok"]
    b.deploy(name, host, scripts, 5 * SEC, 500 * MS, async_=False)
    gone = "dialfail:" + b.meta["deploys"][-1]["targets"][f]
    b.sleep(1 * SEC + 500 * MS)
    for _ in range(2 * k):
        b.request(host, "burst", beh=gone)
    b.sleep(600 * MS)                                          # the probe at 2 s is refused
    for _ in range(2 * k + 1):
        b.request(host, "burst", beh=gone)
    b.sleep(1 * SEC)                                           # and the one at 3 s
    for _ in range(2 * k + 1):
        b.request(host, "burst", beh=gone)
    b.sleep(1 * SEC)                                           # back at 4 s
    for _ in range(2 * k + 1):
        b.request(host, "burst")
    return b.finish()


def gen_restored(k, f, pos, rollout=False):
    """a proxy RESTART: k targets deployed, `pos` requests, restart (balancers restored from the state file: every target presumed
    healthy until its first probe), then target f refuses two probes and recovers; bursts before / during / after: the restored
    rotation is all targets, a failing one leaves it, a recovered one returns, strict rotation throughout.  With `rollout`: the
    service also has rollout targets and a split that includes every cookie value; requests carry the cookie."""
    b = c01.Builder(random.Random(k * 1000 + f * 100 + pos * 10 + int(rollout)))
    b.meta["shape"] = {"mix": "restored", "k": k, "fails": f, "pos": pos, "rollout": rollout}
    host, name = b"a.example.com", b"web"
    b.deploy(name, host, [["ok"] for _ in range(k)], 5 * SEC, 500 * MS, async_=False)
    cookie = None
    if rollout:
        b.deploy(name, host, [["ok"] for _ in range(k)], 5 * SEC, 500 * MS, async_=False, rollout=True)
        b.steps.append({"op": "rollout_set", "id": b.cmd(), "name": H(name), "pct": 100, "allow": []})
        cookie = b"alice"
    for _ in range(pos):
        b.request(host, "burst", cookie=cookie)
    b.sleep(0)
    b.steps.append({"op": "restart", "id": "x1"})
    tn = b.meta["deploys"][-1]["targets"][f]
    b.steps.append({"op": "probe_script", "targets": [{"name": H(tn.encode()), "probes": ["refused", "refused", "ok"]}]})
    for _ in range(2 * k + 1):
        b.request(host, "burst", cookie=cookie)
    b.sleep(1 * SEC + 100 * MS)
    for _ in range(2 * k + 1):
        b.request(host, "burst", cookie=cookie)
    b.sleep(2 * SEC)
    for _ in range(3 * k + 1):
        b.request(host, "burst", cookie=cookie)
    return b.finish()


def gen_d12(rnd, variant):
    """Drains with probes in between (suspected defect D12): pause with hanging requests."""
    b = c01.Builder(rnd)
    b.meta["shape"] = {"mix": "d12-" + variant}
    b.meta["strict"] = False
    host, name = b"a.example.com", b"web"
    if variant == "flip":        # a successful probe during the drain: requests are claimed while the drain is in progress
        b.deploy(name, host, [["ok"], ["ok"]], 3 * SEC, 2 * SEC, async_=False)
        b.request(host, "hang", beh="hang")
        b.request(host, "hang", beh="hang")
        b.sleep(200 * MS)
        b.steps.append({"op": "pause", "id": b.cmd(), "async": True, "name": H(name), "fail_after": 10 * SEC, "drain_timeout": 3 * SEC})
        b.sleep(1300 * MS)
        b.steps.append({"op": "resume", "id": b.cmd(), "async": True, "name": H(name)})
        b.sleep(100 * MS)
    else:                        # the drain's restore overrides a failed probe
        late = rnd.choice([600 * MS, 700 * MS, 800 * MS])
        b.deploy(name, host, [["ok", "ok", "ok", "refused"], ["ok", "ok", "ok", "slow:%d:503" % late, "ok"]], 3 * SEC, 2 * SEC, async_=False)
        b.request(host, "hang", beh="hang")
        b.request(host, "hang", beh="hang")
        b.sleep(SEC)
        b.steps.append({"op": "pause", "id": b.cmd(), "async": True, "name": H(name), "fail_after": 10 * SEC, "drain_timeout": 2500 * MS})
        b.sleep(2600 * MS)
        b.steps.append({"op": "resume", "id": b.cmd(), "async": True, "name": H(name)})
        b.sleep(late - 600 * MS + 100 * MS)
    for _ in range(3):
        b.request(host, "after-resume")
    b.sleep(1500 * MS)
    b.request(host, "after-resume")
    return b.finish()


def gen_shapes(rnd, n):
    mixes = ["flap", "all_fail", "staggered", "dies", "burst", "flap"]
    shapes = []
    for i in range(n):
        arms = []
        if rnd.random() < 0.25:
            arms.append("probe:applied")
        if rnd.random() < 0.25:
            arms.append("req:lb-picked")
        if rnd.random() < 0.1:
            arms.append("req:routed")
        shapes.append({"mix": mixes[i % len(mixes)], "k": 1 + (i // len(mixes)) % 4, "ticks": rnd.randint(4, 7),
                       "arms": arms, "redeploy": rnd.random() < 0.3})
    return shapes


def claims_during_drain(o):
    """Requests claimed by a target while one of its Drain calls is in progress (possible only after
    a probe flipped it from draining back to healthy)."""
    open_by_g, phase, out = {}, {}, []
    for e in o["events"]:
        if e["kind"] == "drain-begin":
            open_by_g[e["g"]] = e["args"][0]
            phase[e["g"]] = 0
        elif e["kind"] == "drain-cancel-rest" and e["g"] in open_by_g:
            phase[e["g"]] = 1
        elif e["kind"] == "state-set" and phase.get(e["g"]) == 1:
            open_by_g.pop(e["g"], None)
            phase.pop(e["g"], None)
        elif e["kind"] == "claim" and e["args"][0] in open_by_g.values():
            out.append({"seq": e["seq"], "t": e["t"], "target": e["args"][0], "request": e["args"][1]})
    return out


def bounds_term(o, ptimeouts):
    """[(target id, interval + probe timeout)] for the cadence monitor."""
    items = []
    for e in o["events"]:
        if e["kind"] == "lb-new":
            for t in e["args"][1]:
                host = t.split(":", 1)[1]
                if host in ptimeouts:
                    items.append("(%d, (%d)%%N)" % (m5.idn(t), INTERVAL + ptimeouts[host]))
    return "[" + "; ".join(items) + "]" if items else "(@nil (nat * N))"


PROFILES = [{"requests": 3.0, "flap": 1.5, "yields": 1.5}, {"services": [b"web"], "hosts": [b"a.example.com"], "requests": 3.0, "yields": 2.0, "flap": 2.0},
            None, {"pause": 1.2, "requests": 2.0, "flap": 1.0}]


def run(tier, seed):
    res = Result("C09", tier, seed)
    work = Work("C09")
    try:
        ok, blog = coq_build(["props/C09.vo", "props/C01restore.vo", "props/C09rot.vo", "props/C09excl.vo", "corr/C01corr.vo", "corr/C09corr.vo", "corr/C09rot.vo"])
        proofs_ok, pa = proof_obligations_multi(work, res, ["C09.v", "C01restore.v", "C09rot.v", "C09excl.v"], ok, blog)
        if ok:
            # the model's probe_next / next_idx proved equal to what the source says on this run (tools/gentie.py)
            import gentie
            g_ok, g_log = gentie.gen_tie(work, res)
            if not g_ok:
                proofs_ok = False
                pa += "\n" + g_log
        gate = coq_gate()
        if gate:
            proofs_ok = False
            pa += "\nforbidden constructs: " + "; ".join(gate[:10])
        rnd = random.Random(seed)
        n_directed, n_d12, n_random = (60, 4, 8) if tier == "quick" else (560, 40, 160)
        shapes = gen_shapes(rnd, n_directed)
        sm = [gen_scenario(rnd, sh) for sh in shapes]
        sm += [gen_d12(rnd, "flip" if i % 2 == 0 else "restore") for i in range(n_d12)]
        # deploys whose last target turns healthy exactly at / 1 ns around the deploy deadline (C01's edge shapes): whichever way
        # the tie goes, a target that serves afterwards must still be probed
        sm += [c01.gen_scenario(random.Random(seed * 43 + i), {"mix": "edge", "n": 1 + i % 2, "existing": i % 3 == 0, "rollout": False, "arms": [],
                                                                 "delta": [0, 0, -1, 1][i % 4], "again": False})
               for i in range(8 if tier == "quick" else 64)]
        sm += [gen_cursor_sweep(k, pos, f) for k in ((2, 3) if tier == "quick" else (2, 3, 4, 5)) for pos in range(k + 1) for f in range(k)]
        sm += [gen_gone(k, f) for (k, f) in ([(2, 0), (3, 1)] if tier == "quick" else [(k, f) for k in (2, 3, 4) for f in range(k)])]
        # restarts: restored balancers (model/M5lb.v rule KRestored; theorems props/C01restore.v)
        if m5.RESTORE_EVENTS:
            sm += [gen_restored(k, f, pos, ro) for (k, f, pos, ro) in
                   ([(3, 0, 1, False), (2, 1, 0, False), (3, 1, 2, True)] if tier == "quick" else
                    [(k, f, pos, ro) for k in (2, 3, 4) for f in range(k) for pos in (0, 1, k) for ro in (False, True)])]
        scenarios = [s for s, _ in sm]
        metas = [m for _, m in sm]
        rand = m5lb.random_scenarios(rnd, n_random, PROFILES, 8, 25)
        scenarios += rand
        metas += [None] * len(rand)
        kf = {e["id"] for e in known_findings("C09")}

        def evaluate(scenarios, metas, tag, self_test):
            harness_ok, gout, outs = m5.run_scenarios(work, scenarios)
            rows, doct, pts = [], {}, []
            for j, o in enumerate(outs):
                pt = {}
                if metas[j] is not None:
                    for d in metas[j]["deploys"]:
                        for t in d["targets"]:
                            pt[t] = d["ptimeout"]
                pts.append(pt)
            if harness_ok and ok:
                terms = ["(%s, (%d)%%N, %s)" % (bounds_term(o, pts[j]), o["t_end"], m5.trace_term(o["events"])) for j, o in enumerate(outs)]
                expr = ("fun x => match x with (bd, te, tr) => (reject_at tr, c09_fail_at tr, c09_rebuild_fail_at tr, c09_restore_at tr, "
                        "c01_fail_at tr, c09_cadence bd (6000000000)%N te tr, c09_counts tr, c09_unprobed_claim_at tr, c09_rot_fail_at tr, c09_excl_fail_at tr, c09_handoff_fail_at tr) end")
                rows = m4x.coq_map(work, m5lb.IMPORTS + "From KP Require Import corr.C09rot.\n", "", terms, expr, tag, shard=5)
                src = next((o for o in outs if sum(1 for e in o["events"] if e["kind"] == "claim") >= 2 and
                            any(e["kind"] == "lb-new" and len(e["args"][1]) >= 2 for e in o["events"])), None) if self_test else None
                if src is not None:
                    d = c01.doctored(src["events"])
                    names = [k for k, v in d.items() if v is not None]
                    if names:
                        acc = m4x.coq_map(work, m5lb.IMPORTS_MODEL, "", [m5.trace_term(d[k]) for k in names], "fun tr => accepted tr", tag + "doc", shard=3)
                        doct = dict(zip(names, acc))
            rejected, mon_fail, e2e, known, drains = [], [], [], [], []
            cnts = [0, 0, 0, 0]
            for j, r in enumerate(rows):
                rej, mon, reb, rest, m1, cad, cnt, unp, rot, excl, hand = r
                for q in range(4):
                    cnts[q] += cnt[q]
                if mon is not None:
                    if rest is not None and rest[1] < mon[1] and "C09-F1-drain-restore-over-failed-probe" in kf:
                        known.append((j, mon[1], rest[1]))
                    else:
                        mon_fail.append((j, "c09_ok", mon[1]))
                elif reb is not None:
                    mon_fail.append((j, "c09_rebuild_ok", reb[1]))
                elif m1 is not None:
                    mon_fail.append((j, "c01_ok", m1[1]))
                elif hand is not None:
                    mon_fail.append((j, "c09_handoff_ok (the balancer picked a target for a request and the request was answered without "
                                        "that target either taking it or refusing it because it is draining)", hand[1]))
                elif excl is not None:
                    mon_fail.append((j, "c09_excl_ok (a probe goroutine applied a failing result while its target was in the rotation and did "
                                        "not rebuild the rotation without it before its next result)", excl[1]))
                elif rot is not None:
                    mon_fail.append((j, "c09_rot_ok (a rebuilt rotation is not exactly the balancer's healthy targets, each once, in the "
                                        "balancer's order: a healthy target left out, or a target listed twice)", rot[1]))
                elif unp is not None:
                    mon_fail.append((j, "c09_unprobed_claim (a request was sent to a target whose probe loop has been stopped while "
                                        "its balancer is still in service)", unp[1]))
                elif not cad and metas[j] is not None and metas[j]["strict"]:
                    mon_fail.append((j, "c09_cadence", -1))
                if rej is not None:
                    rejected.append((j, rej[1]))
            for j, o in enumerate(outs):
                if metas[j] is not None:
                    pv = c01.probe_verdicts(o, pts[j])
                    if pv:
                        e2e.append((j, "a probe was counted as %s although the target answered '%s'" %
                                    ("success" if pv[0]["applied_ok"] else "failure", pv[0]["outcome"]), pv[:3]))
                sb = c01.served_by_claimed(o)
                if sb:
                    e2e.append((j, "a request was served by a target other than the one that claimed it", sb[:3]))
                cd = claims_during_drain(o)
                if cd:
                    drains.append((j, cd))
            return {"harness_ok": harness_ok, "gout": gout, "outs": outs, "rows": rows, "doct": doct, "rejected": rejected,
                    "mon_fail": mon_fail, "e2e": e2e, "known": known, "drains": drains, "cnts": cnts, "scenarios": scenarios, "metas": metas}

        ev = evaluate(scenarios, metas, "C09", True)
        # a scenario whose trace is rejected or fails a monitor is run again alone before it is reported (a goroutine switch forced
        # by the runtime's monitor thread inside a lock region - CPU contention - splits the region's events and does not reproduce;
        # defects and the recorded seeded changes do): entries that do not reproduce are dropped and listed in the evidence
        not_reproduced = []
        for j in sorted({x[0] for x in ev["rejected"] + ev["mon_fail"] + ev["e2e"]})[:8]:
            ev1 = evaluate([scenarios[j]], [metas[j]], "C09re%d" % j, False)
            if ev1["harness_ok"] and ev1["rows"] and not (ev1["rejected"] or ev1["mon_fail"] or ev1["e2e"]):
                not_reproduced.append({"scenario_index": j, "first_run": [list(map(str, x)) for x in ev["rejected"] + ev["mon_fail"] if x[0] == j]})
                for key in ("rejected", "mon_fail", "e2e", "known"):
                    ev[key] = [x for x in ev[key] if x[0] != j]
        searched = 0
        if ev["rejected"] and not ev["mon_fail"] and not ev["e2e"]:
            rshapes = [metas[j]["shape"] for j, _ in ev["rejected"] if metas[j] is not None and "ticks" in metas[j]["shape"]] or shapes[:8]
            rnd2 = random.Random(seed * 7919 + 1)
            sm2 = [gen_scenario(rnd2, rshapes[i % len(rshapes)]) for i in range(32 if tier == "quick" else 200)]
            ev2 = evaluate([x for x, _ in sm2], [m for _, m in sm2], "C09s", False)
            searched = len(sm2)
            if ev2["mon_fail"] or ev2["e2e"]:
                ev2["doct"] = ev["doct"]
                ev = ev2
        harness_ok, gout, outs, rows, doct = ev["harness_ok"], ev["gout"], ev["outs"], ev["rows"], ev["doct"]
        rejected, mon_fail, e2e, known, drains = ev["rejected"], ev["mon_fail"], ev["e2e"], ev["known"], ev["drains"]
        scenarios, metas = ev["scenarios"], ev["metas"]
        picks, nones, rots, fails = ev["cnts"]
        for (j, at, k) in known[:1]:
            res.known_finding("C09-F1-drain-restore-over-failed-probe: in %d scenario(s) the end of a Drain wrote 'healthy' over a failed probe "
                              "result and the next rebuilt rotation contained that target (suspected defect D12, not decided)" % len(known))
        status, mixes = {}, {}
        for o in outs:
            for r in o["results"]:
                if r.get("op") == "request":
                    status[str(r["status"])] = status.get(str(r["status"]), 0) + 1
        for m in metas:
            k = "random (m5.Gen)" if m is None else "%s/k=%s" % (m["shape"]["mix"], m["shape"].get("k", 2))
            mixes[k] = mixes.get(k, 0) + 1
        distinct = len({json.dumps(s, sort_keys=True) for s in scenarios})
        nontrivial = sum(1 for o in outs if any(e["kind"] == "lb-claim" for e in o["events"]) and
                         any(e["kind"] == "probe-apply" and not e["args"][1] for e in o["events"]))
        res.coverage.update({
            "evaluations": len(outs), "distinct_nontrivial": min(distinct, nontrivial),
            "traces_validated_against_impl": len(rows) - len(rejected),
            "rule": "one evaluation = one scenario run on the real code (virtual clock) whose event trace is replayed through the "
                    "acceptor model/M5lb.v and the monitors c09_ok / c09_rebuild_ok / c09_cadence / c01_ok; %d directed scenarios "
                    "(1-4 targets, scripted probe outcomes per tick, bursts of requests), %d drain scenarios (D12), %d random concurrent "
                    "scenarios of m5.Gen; non-trivial = has a pick and a failing probe result; distinct by scenario JSON"
                    % (len(shapes), n_d12, len(rand)),
            "input_distribution": {"shapes": mixes,
                                   "yields_armed": {p: sum(1 for sh in shapes if p in sh["arms"]) for p in m5lb.LB_POINTS}},
            "outcome_distribution": {"request_status": status, "events": m5lb.n_events(outs), "picks": picks, "picks_without_target": nones,
                                     "rotation_rebuilds": rots, "failing_probe_results": fails,
                                     "requests_claimed_while_a_drain_of_the_target_is_in_progress": sum(len(c) for _, c in drains)},
            "samples": [{"scenario_steps": [{k: v for k, v in st.items() if k in ("op", "id", "ns", "point", "targets")}
                                            for st in scenarios[0]["steps"][:12]]}] if scenarios else [],
            "correspondence": {"traces": len(rows), "rejected_by_acceptor": len(rejected), "monitor_failures": len(mon_fail),
                               "known_finding_traces": len(known), "end_to_end_failures": len(e2e),
                               "doctored_traces_accepted": {k: v for k, v in doct.items()},
                               "extra_scenarios_searched_after_a_rejection": searched,
                               "failures_not_reproduced_on_rerun": not_reproduced},
        })
        if drains:
            j, cd = drains[0]
            res.notes.append("D12 (suspected, not decided): in %d scenario(s) a request was claimed by a target whose Drain was still in "
                             "progress, after a successful probe had flipped it draining->healthy; first: scenario %d (%s), request %s "
                             "on %s at %.1f s" % (len(drains), j, "random" if metas[j] is None else metas[j]["shape"]["mix"],
                                                  cd[0]["request"], cd[0]["target"], cd[0]["t"] / 1e9))
        res.assumptions = [
            "model/M5lb.v is hand-written; it is tied to load_balancer.go / target.go / health_check.go / service.go only by this "
            "correspondence run: every recorded event trace must be accepted (hooks: build tag verif in /repo)",
            "traces are recorded with GOMAXPROCS(1): a lock region of the Go code is one atomic step; interleavings are explored only "
            "at blocking points and at the armed yield points",
            "fairness is proved for the cursor arithmetic and for the accepted traces; which target a request reaches after the pick "
            "(refusal by a draining target, the 503 mapping) belongs to C02's view",
            "the probe cadence (a result within interval + probe timeout of the previous one) is a monitor on the observed times only, "
            "evaluated on scenarios that do not park probe goroutines",
            "restarts are inside the acceptor (rule KRestored of model/M5lb.v, hook event 'restored'): restored balancers are generated in the "
            "'restored' family; an old-process command still running across a restart is not modelled",
        ]

        def payload(j, what, extra):
            p = {"property": "C09", "what": what, "seed": seed, "tier": tier, "scenario": scenarios[j],
                 "shape": metas[j]["shape"] if metas[j] else "random (m5.Gen)"}
            p.update(extra)
            return p

        def around(j, k):
            return [m5lb.event_at(outs[j], i) for i in range(max(0, k - 8), k + 1)] if k >= 0 else []
        bad_doct = [k for k, v in doct.items() if v]
        # concurrent form (real scheduler): probe results of the targets of one balancer applied together; afterwards
        # the rotation must be exactly the healthy targets (the acceptor's KRotation rule read atomically)
        rounds = 300 if tier == "quick" else 5000
        rc_r, out_r = go_test(work, ["common_test.go", "c09_race_test.go"],
                              "^TestVerifC09Race$", {"VERIF_OUT": work.path("c09race.jsonl"), "VERIF_ROUNDS": str(rounds),
                                                     "VERIF_SEED": str(seed)}, timeout=900, synctest=False, extra_args=None) \
            if harness_ok else (1, "")
        race_rows = read_jsonl(work.path("c09race.jsonl")) if rc_r == 0 and os.path.exists(work.path("c09race.jsonl")) else []
        race_bad = [r for r in race_rows if r["healthy_targets"] != r["rotation"]]
        res.coverage["rotation_race_stress"] = {"rounds": len(race_rows), "targets": 8, "rounds_with_rotation_equal_healthy": len(race_rows) - len(race_bad)}
        if harness_ok and rc_r != 0:
            harness_ok = False
            gout = out_r
        # concurrent claims (real scheduler): strict rotation means every target is claimed exactly total/k times
        crounds = 16 if tier == "quick" else 200
        rc_c, out_c = go_test(work, ["common_test.go", "c09_race_test.go"],
                              "^TestVerifC09ClaimRace$", {"VERIF_OUT": work.path("c09claim.jsonl"), "VERIF_ROUNDS": str(crounds)},
                              timeout=900, synctest=False, extra_args=None) if harness_ok else (1, "")
        claim_rows = read_jsonl(work.path("c09claim.jsonl")) if rc_c == 0 and os.path.exists(work.path("c09claim.jsonl")) else []
        claim_bad = [r for r in claim_rows if any(c != r["expected_each"] for c in r["per_target"])]
        res.coverage["claim_race_stress"] = {"rounds": len(claim_rows), "claims": sum(r["claims"] for r in claim_rows),
                                             "rounds_with_exact_rotation": len(claim_rows) - len(claim_bad)}
        if harness_ok and rc_c != 0:
            harness_ok = False
            gout = out_c
        if claim_bad and not mon_fail:
            res.violation("stress-claims", {"property": "C09", "what": "concurrent claims on one balancer are not handed out in strict rotation "
                                            "(some target was claimed more often than another)",
                                            "observed": claim_bad[:3], "seed": seed, "tier": tier,
                                            "replay": "go test -run TestVerifC09ClaimRace (harness/c09_race_test.go), real scheduler"})
            return res.finish()
        if race_bad and not mon_fail:
            res.violation("stress", {"property": "C09", "what": "after concurrently applied probe results the rotation is not the set of healthy targets",
                                     "observed": race_bad[:3], "seed": seed, "tier": tier,
                                     "replay": "go test -run TestVerifC09Race (harness/c09_race_test.go), real scheduler"})
            return res.finish()
        if mon_fail:
            j, which, k = mon_fail[0]
            res.violation("monitor-%d" % j, payload(j, "monitor %s false on an implementation trace: a pick that is not the round-robin "
                                                       "successor within the rotation rebuilt last, a rotation holding a target whose latest "
                                                       "probe failed, a state change without a rebuild, or a missed probe" % which,
                                                    {"monitor": which, "failing_event_index": k, "events_before": around(j, k)}))
        elif e2e:
            j, what, det = e2e[0]
            res.violation("e2e-%d" % j, payload(j, what, {"details": det}))
        elif rejected or not harness_ok or not proofs_ok or bad_doct or (harness_ok and ok and not doct):
            what = ("the acceptor model/M5lb.v rejects a trace of the implementation" if rejected else
                    "harness does not build/run against the tree" if not harness_ok else
                    "proof obligations of props/C09.v do not check" if not proofs_ok else
                    "a doctored trace is accepted by model/M5lb.v: " + ", ".join(bad_doct) if bad_doct else
                    "no trace suitable for the doctored-trace self test was produced")
            p = {"property": "C09", "what": what, "seed": seed, "tier": tier,
                 "broken": "model/M5lb.v (acceptor) vs the balancer code" if (rejected or not harness_ok or bad_doct or not doct) else "props/C09.v"}
            if rejected:
                j, k = rejected[0]
                p = payload(j, what, {"rejected_event_index": k, "events_before": around(j, k), "broken": p["broken"],
                                      "rejected_scenarios": len(rejected)})
            if not harness_ok:
                p["harness_output"] = gout[-3000:]
            if not proofs_ok:
                p["coq_output"] = (blog + pa)[-3000:]
            res.violation("broken", p, no_input=True)
        # the probe loop of health_check.go (cadence): model/Ticker.v, props/C09probe.v, exact comparison on the virtual clock
        import c09probe
        c09probe.run_probe(tier, seed, res)
        return res.finish()
    finally:
        work.cleanup()
