"""./check setup — build everything from files on disk (offline)."""
import subprocess
import sys

from vlib import *


def main():
    hits = coq_gate()
    if hits:
        print("axiom/admit gate failed:\n" + "\n".join(hits))
        return 1
    subprocess.run(["make", "-f", "Makefile.coq", "clean"], cwd=COQ, stdout=subprocess.DEVNULL, stderr=subprocess.DEVNULL)
    ok, out = coq_build()
    print(out[-3000:])
    if not ok:
        print("coq build failed")
        return 1
    # warm the Go build caches (plain and synctest-experiment std)
    work = Work("setup")
    try:
        files = sorted(f for f in os.listdir(HARNESS) if f.endswith("_test.go") and not f.startswith("cmd_"))
        for syn in (False, True):
            rc, out = go_test(work, files, "^TestVerifNothing$", {}, synctest=syn)
            print(out[-1500:])
            if rc != 0:
                print("harness does not build against /repo")
                return 1
        env = go_env()
        p = subprocess.run(["go", "build", "-o", os.devnull, "./cmd/kamal-proxy"], cwd=REPO, env=env)
        if p.returncode != 0:
            return 1
    finally:
        work.cleanup()
    print("setup ok")
    return 0


if __name__ == "__main__":
    sys.exit(main())
