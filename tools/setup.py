"""./check setup — build everything from files on disk (offline)."""
import subprocess
import sys

from vlib import *


def main():
    hits = coq_gate()
    if hits:
        print("axiom/admit gate failed:\n" + "\n".join(hits))
        return 1
    subprocess.run(["make", "-f", "Makefile.coq", "clean"], cwd=COQ, stdout=subprocess.DEVNULL, stderr=subprocess.DEVNULL)
    ok, out = coq_build()
    print(out[-3000:])
    if not ok:
        print("coq build failed")
        return 1
    # warm the Go build caches (plain and synctest-experiment std)
    work = Work("setup")
    try:
        files = sorted(f for f in os.listdir(HARNESS) if f.endswith("_test.go") and not f.startswith("cmd_"))
        # all harness files of package server compile together (the virtual-clock ones need GOEXPERIMENT=synctest)
        rc, out = go_test(work, files, "^TestVerifNothing$", {}, synctest=True)
        print(out[-1500:])
        if rc != 0:
            print("harness does not build against /repo")
            return 1
        # the subset used without the experiment (real-scheduler stress tests)
        plain = [f for f in files if f in ("common_test.go", "c03_race_test.go", "c09_race_test.go", "c14_test.go")]
        rc, out = go_test(work, plain, "^TestVerifNothing$", {})
        print(out[-800:])
        if rc != 0:
            print("plain harness subset does not build against /repo")
            return 1
        env = go_env()
        p = subprocess.run(["go", "build", "-o", os.devnull, "./cmd/kamal-proxy"], cwd=REPO, env=env)
        if p.returncode != 0:
            return 1
    finally:
        work.cleanup()
    print("setup ok")
    return 0


if __name__ == "__main__":
    sys.exit(main())
