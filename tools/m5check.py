"""Driver shared by the trace-based properties C02 and C03: concurrent scenarios
on the real code (virtual clock, forced interleavings at yield points), each
recorded trace is (1) offered to the acceptor model/M5full.v (correspondence:
is the trace a behaviour of the model?) and (2) judged by the property's
monitor, which looks at the trace alone."""
import random
from concurrent.futures import ThreadPoolExecutor

import m5
from vlib import *


TIME_VIEW = False     # also offer every trace to the timing view model/M5time.v (joint theorems of props/C03cmd.v)
CMD_VIEW = False      # also offer every trace (recorded WITH the command <-> drain linkage events) to model/M5cmd.v (props/C03link.v)
LAST_CMD_REJECTS = []
LAST_TIME_REJECTS = []


TRUNC_FN = None       # Coq function trace -> list nat -> list nat: streamed requests whose truncated body is not licensed
LAST_TRUNC_BAD = []


def eval_traces(work, outs, corr_mod, check_fn, tag):
    """Per trace: (accepted?, first rejected index or None, [(idx, code, who, known)]).  With TIME_VIEW the trace must also be
    accepted by M5time (the first rejection of either view is reported; M5time's are listed in LAST_TIME_REJECTS)."""
    imports = "From KP Require Import model.Base model.Trace model.M5full corr.%s.\nFrom KP Require model.M5time model.M5cmd." % corr_mod

    def ev(i):
        tv = "first_reject M5time.step M5time.init (unlinked tr) 0" if TIME_VIEW else "(None : option nat)"
        if CMD_VIEW:
            tv = "(%s, first_reject M5cmd.step M5cmd.init tr 0)" % tv
        trunc = [m5.rid(r["id"]) for r in outs[i]["results"] if r.get("op") == "request" and r.get("truncated") and not r.get("client_gone")]
        tb = ("(%s tr (%s : list nat))" % (TRUNC_FN, list_lit(["%d" % x for x in trunc]))) if TRUNC_FN else "([] : list nat)"
        body = ("Definition tr := %s.\nDefinition R := Eval vm_compute in (first_reject step init tr 0, %s, %s, %s tr).\n"
                % (m5.trace_term(outs[i]["events"]), tv, tb, check_fn))
        return i, coq_eval(work, "%s_%d" % (tag, i), imports, body, "R")
    res = [None] * len(outs)
    with ThreadPoolExecutor(max_workers=16) as ex:
        for i, txt in ex.map(ev, range(len(outs))):
            t = txt.strip()
            rej_c = None
            if CMD_VIEW:
                mc = re.fullmatch(r"\((None|Some (?:\d+)(?:%nat)?), \((None|Some (?:\d+)(?:%nat)?), (None|Some (\d+)(?:%nat)?)\), (.*)\)", t, re.S)
                if not mc:
                    raise RuntimeError("unexpected result term: " + t[:300])
                rej_c = None if mc.group(3) == "None" else int(mc.group(4))
                t = "(%s, %s, %s)" % (mc.group(1), mc.group(2), mc.group(5))
            m = re.fullmatch(r"\((None|Some (\d+)(?:%nat)?), (None|Some (\d+)(?:%nat)?), (\[[\d;\s%nat]*\]|nil), (\[.*\]|nil)\)", t, re.S)
            if not m:
                raise RuntimeError("unexpected result term: " + t[:300])
            rej = None if m.group(1) == "None" else int(m.group(2))
            rej_t = None if m.group(3) == "None" else int(m.group(4))
            if rej is None and rej_t is not None:
                rej = rej_t
                LAST_TIME_REJECTS.append((tag, i, rej))
            if rej is None and rej_c is not None:
                rej = rej_c
                LAST_CMD_REJECTS.append((tag, i, rej))
            fails = []
            for x in re.findall(r"\d+", m.group(5)):
                LAST_TRUNC_BAD.append((tag, i, int(x)))
            lst = m.group(6)
            if lst not in ("[]", "nil"):
                items = re.findall(r"\((\d+)(?:%nat)?, (\d+)(?:%N)?, (\d+)(?:%nat)?, (true|false)\)", lst)
                if len(items) != lst.count("true") + lst.count("false"):
                    raise RuntimeError("cannot parse failure list: " + lst[:300])
                fails = [(int(a), int(b), int(c), d == "true") for a, b, c, d in items]
            res[i] = (rej is None, rej, fails)
    return res


def context(out, idx, width=14):
    """Events around Coq trace index idx (the converter inserts identity/params events)."""
    items, seen = [], set()
    for e in out["events"]:
        for a in e["args"]:
            for x in (a if isinstance(a, list) else [a]):
                if isinstance(x, str) and re.fullmatch(r"[ST]\d+:.*", x, re.S) and x not in seen:
                    seen.add(x)
                    items.append(None)
        items.append(e)
        if e["kind"] == "issue" and len(e["args"]) >= 6:
            items.append(None)
    lo = max(0, idx - width)
    return [{"t": e["t"], "g": e["g"], "kind": e["kind"], "args": e["args"]} for e in items[lo:idx + 1] if e]


def run_property(prop, tier, seed, prop_file, corr_mod, check_fn, profiles, n_quick, n_thorough, codes, finding_id,
                 finding_what, assumptions, forced=None, extra=None):
    res = Result(prop, tier, seed)
    work = Work(prop)
    try:
        prop_files = prop_file if isinstance(prop_file, list) else [prop_file]
        ok, blog = coq_build(["props/%s.vo" % f[:-2] for f in prop_files] + ["corr/%s.vo" % corr_mod, "model/M5full.vo", "model/M5time.vo", "model/M5cmd.vo"])
        proofs_ok, pa = True, ""
        ob = {"obligations": 0, "discharged": 0, "theorems": []}
        for pf in prop_files:
            p_ok, out = proof_obligations(work, res, pf, ok, blog)
            proofs_ok = proofs_ok and p_ok
            pa += out
            ob["obligations"] += res.coverage["obligations"]
            ob["discharged"] += res.coverage["discharged"]
            ob["theorems"] += res.coverage["theorems"]
        res.coverage.update(ob)
        res.coverage["checker_cmd"] = ("cd /verif/coq && ./build.sh  (coq_makefile + make, full .vo build; coqc 8.16.1) ; coqc props/"
                                       + " props/".join(prop_files))
        res.coverage["trusted_base"] = ["Coq 8.16.1 kernel incl. vm_compute (no native_compute)",
                                        "Print Assumptions: %d of %d theorem(s) closed under the global context"
                                        % (pa.count("Closed under the global context"), ob["obligations"])]
        prop_file = ", ".join(prop_files)
        rnd = random.Random(seed)
        n = n_quick if tier == "quick" else n_thorough
        scenarios = list(forced or [])
        while len(scenarios) < n:
            prof = rnd.choice(profiles)
            scenarios.append(m5.Gen(rnd, prof).gen(rnd.randint(*prof.get("actions", (12, 45)))))
        harness_ok, gout, outs = m5.run_scenarios(work, scenarios)
        results = eval_traces(work, outs, corr_mod, check_fn, prop) if (harness_ok and ok) else []
        # A scenario whose trace is rejected or fails the monitor (beyond the recorded finding) is run again alone before it is
        # reported; the verdict is that of the re-run.  (Under CPU contention the Go runtime's monitor thread can force a goroutine
        # switch inside a lock region - not at an armed yield - which splits the region's events in the recorded trace; that does
        # not reproduce.  Defects of the implementation and every recorded seeded change do.)
        not_reproduced = []
        if results:
            kl = {e["id"] for e in known_findings(prop)}
            suspects = [i for i, r in enumerate(results)
                        if (not r[0]) or any(not (f[3] and finding_id in kl) for f in r[2])][:10]
            for i in suspects:
                ok2, _, o2 = m5.run_scenarios(work, [scenarios[i]])
                if ok2 and o2:
                    r2 = eval_traces(work, o2, corr_mod, check_fn, "%s_re%d" % (prop, i))[0]
                    if r2[0] and not any(not (f[3] and finding_id in kl) for f in r2[2]):
                        not_reproduced.append({"scenario_index": i, "first_run_rejected_at": results[i][1],
                                               "first_run_monitor_failures": [list(f) for f in results[i][2]]})
                    outs[i], results[i] = o2[0], r2
                    for lst in (LAST_TRUNC_BAD, LAST_TIME_REJECTS, LAST_CMD_REJECTS):
                        keep = [t for t in lst if not (t[0] == prop and t[1] == i)]
                        keep += [(prop, i) + tuple(t[2:]) for t in lst if t[0] == "%s_re%d" % (prop, i)]
                        lst[:] = [t for t in keep if t[0] != "%s_re%d" % (prop, i)]
        known_listed = {e["id"] for e in known_findings(prop)}
        n_events = sum(len(o["events"]) for o in outs)
        statuses, cmds = {}, {}
        for o in outs:
            for r in o["results"]:
                if r.get("op") == "request":
                    statuses[str(r["status"])] = statuses.get(str(r["status"]), 0) + 1
                elif "result" in r:
                    k = "%s:%s" % (r["op"], r["result"])
                    cmds[k] = cmds.get(k, 0) + 1
        kinds = {}
        for o in outs:
            for e in o["events"]:
                kinds[e["kind"]] = kinds.get(e["kind"], 0) + 1
        rejected = [i for i, r in enumerate(results) if not r[0]]
        hits = [(i, f) for i, r in enumerate(results) for f in r[2]]
        unknown = [(i, f) for i, f in hits if not (f[3] and finding_id in known_listed)]
        known = [(i, f) for i, f in hits if f[3] and finding_id in known_listed]
        res.coverage.update({
            "evaluations": len(scenarios), "distinct_nontrivial": len({json.dumps(s, sort_keys=True) for s in scenarios}),
            "rule": "random concurrent scenarios (requests, redeploys, pause/stop/resume, rollout commands, virtual-clock sleeps, "
                    "goroutines parked/released at yield points %s) plus the hand-forced schedules of the recorded findings; each "
                    "scenario yields one event trace; non-trivial = distinct scenario" % ", ".join(sorted({p for pr in profiles for p in pr.get("points", m5.POINTS)})),
            "events": n_events, "event_kind_mix": kinds, "request_status_mix": statuses, "command_mix": cmds,
            "samples": [scenarios[0]["steps"][:12]],
            "traces_validated_against_impl": len(outs),
            "correspondence": {"traces": len(outs), "accepted_by_model": len(results) - len(rejected), "rejected": len(rejected),
                               "failures_not_reproduced_on_rerun": not_reproduced},
            "monitor": {"hits": len(hits), "known_finding_hits": len(known), "other": len(unknown),
                        "codes": codes},
        })
        res.assumptions = assumptions
        if extra and harness_ok:
            x_ok, x_bad, x_out = extra(res, work, tier)
            if not x_ok:
                harness_ok, gout = False, x_out
            elif x_bad:
                res.violation("stress", {"property": prop, "what": "monitor false on a concurrent run of the real code (real scheduler)",
                                         "observed": x_bad[:3], "seed": seed, "tier": tier})
                return res.finish()
        if rejected and not unknown and harness_ok:
            # the correspondence is broken although no monitor failed: search further scenarios of the same
            # profiles for a concrete failing trace before giving up
            extra_found = None
            for extra in range(1, 4):
                rnd2 = random.Random(seed * 7919 + extra)
                sc2 = []
                for _ in range(n):
                    prof2 = rnd2.choice(profiles)
                    sc2.append(m5.Gen(rnd2, prof2).gen(rnd2.randint(*prof2.get("actions", (12, 45)))))
                ok2, _, outs2 = m5.run_scenarios(work, sc2)
                if not ok2:
                    break
                r2 = eval_traces(work, outs2, corr_mod, check_fn, "%s_x%d" % (prop, extra))
                bad = [(i, f) for i, r in enumerate(r2) for f in r[2] if not (f[3] and finding_id in known_listed)]
                res.coverage.setdefault("search_after_rejection", []).append({"scenarios": len(sc2), "monitor_failures": len(bad)})
                if bad:
                    i, f = bad[0]
                    extra_found = (sc2[i], outs2[i], f)
                    break
            if extra_found:
                sc, o, f = extra_found
                res.violation("monitor-search-%d" % f[0], {
                    "property": prop, "what": "monitor (found by the search after a correspondence break): " + codes.get(str(f[1]), "code %d" % f[1]),
                    "failure": f, "scenario": sc, "trace_context": context(o, f[0]), "seed": seed, "tier": tier})
                return res.finish()
        trunc_bad = [t for t in LAST_TRUNC_BAD if t[0] == prop]
        if TRUNC_FN:
            res.coverage["streamed_responses"] = {
                "requests": sum(1 for o in outs for r in o["results"] if r.get("streamed")),
                "truncated": sum(1 for o in outs for r in o["results"] if r.get("truncated")),
                "truncated_without_a_deadline_cut": len(trunc_bad)}
        if trunc_bad and not unknown:
            _, i, rq = trunc_bad[0]
            res.violation("truncated-%d-r%d" % (i, rq), {
                "property": prop, "what": "the client received a truncated response body (streamed response, 200 already sent) although no drain "
                                          "had cut the request off at its deadline", "request": "r%d" % rq, "scenario": scenarios[i],
                "events_of_the_request": [e for e in outs[i]["events"] if e["g"] == "r%d" % rq or "r%d" % rq in json.dumps(e["args"])][-40:],
                "seed": seed, "tier": tier})
            return res.finish()
        if known:
            res.known_finding("%s: %s (%d hit(s) in this run, e.g. scenario %d event %d)" % (
                finding_id, finding_what, len(known), known[0][0], known[0][1][0]))
        if unknown:
            i, f = unknown[0]
            res.violation("monitor-%d-%d" % (i, f[0]), {
                "property": prop, "what": "monitor: " + codes.get(str(f[1]), "code %d" % f[1]), "failure": f,
                "scenario": scenarios[i], "trace_context": context(outs[i], f[0]), "seed": seed, "tier": tier})
        elif rejected or not harness_ok or not proofs_ok:
            pl = {"property": prop, "seed": seed, "tier": tier,
                  "what": (("a trace of the real code is not accepted by the timing view model/M5time.v (joint theorems props/C03cmd.v)"
                            if (rejected and any(t[1] == rejected[0] and t[0] == prop for t in LAST_TIME_REJECTS)) else
                            "a trace of the real code is not accepted by the command/drain linkage view model/M5cmd.v (theorems props/C03link.v)"
                            if (rejected and any(t[1] == rejected[0] and t[0] == prop for t in LAST_CMD_REJECTS)) else
                            "a trace of the real code is not accepted by model/M5full.v (run step init)") if rejected else
                           "harness does not build/run against the tree" if not harness_ok else
                           "proof obligations of props/%s do not check" % prop_file)}
            if rejected:
                i = rejected[0]
                pl.update({"scenario": scenarios[i], "rejected_at": results[i][1], "trace_context": context(outs[i], results[i][1])})
            if not harness_ok:
                pl["harness_output"] = gout[-3000:]
                if m5.last_hang:
                    pl["scenario_that_did_not_end"] = m5.last_hang
            if not proofs_ok:
                pl["coq_output"] = (blog + pa)[-3000:]
            res.violation("broken", pl, no_input=True)
        return res.finish()
    finally:
        work.cleanup()
