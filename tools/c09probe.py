"""C09, first clause — "after deployment every target keeps being probed at the
configured interval": the probe loop of health_check.go (time.NewTicker, one
check at a time, per-check timeout, Close) against model/Ticker.v, EXACTLY, on
the virtual clock.

run_probe(tier, seed, res) is called by the C09 check with its vlib.Result:
 * proof obligations of props/C09probe.v are added to the coverage of `res`;
 * scenarios (one target; interval 100 ms .. 3 s; probe timeout below / equal /
   above the interval; scripted answers fast, slow (+-1 ns around the interval, the
   timeout, twice the interval), hanging, failing; a `remove` at a random instant
   incl. exactly on a tick / exactly at a result; deployments that never become
   healthy and are stopped by the deploy timeout; runs without a remove) are run
   on the real code (harness/sim_test.go, testing/synctest);
 * for the target the observed list of probe-sent / probe-apply instants is compared in
   the Coq kernel with Ticker.probe_times (corr/C09probecorr.v: agrees) and the
   monitor c09_probe_ok is evaluated on the observation alone;
 * monitor false => res.violation(.., scenario as replay); only model != code =>
   res.violation("probe-broken", .., no_input=True).

Stand-alone: python3 /verif/tools/c09probe.py quick 1   (evidence goes to
/verif/.work/C09probe-evidence.json, never to /verif/evidence/C09.json)."""
import random
import sys
import time
from concurrent.futures import ThreadPoolExecutor

import m4x
import m5
from vlib import *

SEC, MS, US = m5.SEC, m5.MS, 1000
H = m5.H
HOST, NAME, TARGET = b"a.example.com", b"web", b"n0:80"
IMPORTS = "From KP Require Import model.Base model.Ticker corr.C09probecorr.\nLocal Open Scope N_scope."
FAST = ["ok", "ok", "ok", "refused", "status:503", "status:204", "status:302", "status:199", "status:300", "status:200"]


# ------------------------------------------------------------ scenarios ----

def rnd_us(rnd, lo, hi):
    """a multiple of 1 us in [lo, hi)"""
    lo = (lo + US - 1) // US
    hi = max(lo + 1, hi // US)
    return rnd.randrange(lo, hi) * US


def scenario(p):
    """The scenario of harness/sim_test.go for the parameters p (all times ns):
    pre: virtual time before the deploy; remove_after: None or the time between deploy and remove;
    tail: time observed after that."""
    st = []
    if p["pre"]:
        st.append({"op": "sleep", "ns": p["pre"]})
    st.append({"op": "deploy", "id": "c1", "async": True, "name": H(NAME), "hosts": [H(HOST)], "prefixes": [],
               "tls": False, "tls_redirect": False, "strip": True, "cert": "none", "pages": "none",
               "targets": [{"name": H(TARGET), "probes": p["script"]}],
               "deploy_timeout": p["deploy_timeout"], "drain_timeout": SEC,
               "topts": {"interval": p["interval"], "timeout": p["timeout"]}})
    rest = p["run"]
    for part in p.get("split", []):
        if 0 < part < rest:
            st.append({"op": "sleep", "ns": part})
            rest -= part
    if rest:
        st.append({"op": "sleep", "ns": rest})
    else:
        st.append({"op": "settle"})
    if p["remove"]:
        st.append({"op": "remove", "id": "c2", "async": False, "name": H(NAME)})
        st.append({"op": "sleep", "ns": p["tail"]})
    return {"steps": st}


def slow_delays(rnd, I, TO):
    c = [I - 1, I, I + 1, TO - 1, TO, TO + 1, 2 * I - 1, 2 * I, 2 * I + 1, 3 * I, I // 2 // US * US, TO + I, 1,
         rnd_us(rnd, US, 3 * I), rnd_us(rnd, US, I), rnd_us(rnd, US, I)]
    return [d for d in c if d >= 1]


def outcome(rnd, I, TO, profile):
    x = rnd.random()
    if profile == "fast":
        # every check shorter than the interval (exact grid expected)
        if x < 0.55:
            return rnd.choice(FAST)
        lim = min(I, TO + 1 if TO < I else I)
        d = rnd.choice([I - 1, max(1, lim - 1), rnd_us(rnd, US, I), 1])
        d = min(d, I - 1)
        return "slow:%d%s" % (d, rnd.choice(["", "", ":503", ":200"]))
    if x < (0.35 if profile == "mixed" else 0.15):
        return rnd.choice(FAST)
    if x < 0.88:
        return "slow:%d%s" % (rnd.choice(slow_delays(rnd, I, TO)), rnd.choice(["", "", "", ":503", ":200"]))
    return "hang"


def gen_params(rnd, idx):
    I = rnd.choice([100 * MS, 250 * MS, 500 * MS, SEC, SEC, 2 * SEC, 3 * SEC, rnd_us(rnd, 100 * MS, 3 * SEC + US),
                    rnd_us(rnd, 100 * MS, 3 * SEC + US)])
    rel = ["below", "equal", "above", "below", "above", "edge"][idx % 6]
    if rel == "below":
        TO = rnd.choice([I // 2 // US * US, I - US, rnd_us(rnd, MS, I), rnd_us(rnd, MS, I)])
    elif rel == "equal":
        TO = I
    elif rel == "edge":
        TO = rnd.choice([I - 1, I + 1, 2 * I, 2 * I - 1, 2 * I + 1])
    else:
        TO = rnd.choice([2 * I, 3 * I, 5 * SEC if 5 * SEC > I else 2 * I, I + rnd_us(rnd, US, 2 * I), I + rnd_us(rnd, US, 2 * I)])
    profile = "fast" if (rel in ("below",) and rnd.random() < 0.5) else rnd.choice(["mixed", "mixed", "slow"])
    if profile == "fast" and TO >= I and rnd.random() < 0.5:
        profile = "mixed"
    n = rnd.randint(1, 7)
    script = [outcome(rnd, I, TO, profile) for _ in range(n)]
    if profile == "fast" and TO >= I:
        script = [o for o in script if o != "hang"] or ["ok"]
    if rnd.random() < 0.7:
        # the deployment succeeds early: a good answer among the first two probes
        good = rnd.choice(["ok", "ok", "slow:%d" % min(TO, rnd.choice(slow_delays(rnd, I, TO)))])
        if profile == "fast":
            good = "ok"
        script.insert(rnd.choice([0, 0, 1]) if script else 0, good)
    pre = rnd.choice([0, 1, 7 * MS, rnd_us(rnd, 0, 2 * SEC), rnd_us(rnd, 0, 2 * SEC) + 1])
    k = rnd.randint(1, 12)
    first_slow = next((int(o.split(":")[1]) for o in script if o.startswith("slow:")), I // 2)
    run = rnd.choice([k * I, k * I, k * I - 1, k * I + 1, k * I + min(first_slow, TO), k * I + TO, k * I + TO - 1,
                      k * I + first_slow, rnd_us(rnd, US, 13 * I), rnd_us(rnd, US, 13 * I), rnd.randint(1, 13 * I)])
    # the deploy timeout (Close by WaitUntilHealthy when the target never became healthy) is kept off every instant at
    # which the loop does something: all other times are multiples of 1 us +- a few ns, this one is ... + 500 ns
    D = rnd.choice([rnd_us(rnd, 2 * I, 14 * I), rnd_us(rnd, 2 * I, 14 * I), 20 * I + 40 * SEC]) + 500
    remove = rnd.random() < 0.88
    p = {"interval": I, "timeout": TO, "script": script, "pre": pre, "run": max(1, run), "remove": remove,
         "deploy_timeout": D, "tail": TO + 2 * I + 1, "profile": profile, "rel": rel, "kind": "random"}
    if rnd.random() < 0.3:
        p["split"] = [rnd.randint(1, max(1, run))]
    return p


def directed(rnd):
    """The tie cases, with a random interval each (see model/Ticker.v for the rules they pin down)."""
    out = []

    def add(kind, I, TO, script, run, pre=0, D=None, remove=True):
        out.append({"interval": I, "timeout": TO, "script": script, "pre": pre, "run": run, "remove": remove,
                    "deploy_timeout": (D if D is not None else 40 * I) + 500, "tail": TO + 2 * I + 1,
                    "profile": "directed", "rel": "below" if TO < I else "equal" if TO == I else "above", "kind": kind})
    pick = lambda: rnd.choice([100 * MS, 250 * MS, 500 * MS, SEC, 2 * SEC, 3 * SEC, rnd_us(rnd, 100 * MS, 3 * SEC)])
    for delta in (-1, 0, 1):
        I = pick()
        add("check ends at a tick %+d ns" % delta, I, 5 * I, ["ok", "slow:%d" % (I + delta), "ok"], 5 * I + I // 2, pre=rnd.choice([0, 5]))
        I = pick()
        add("check ends at the second tick %+d ns" % delta, I, 5 * I, ["ok", "slow:%d" % (2 * I + delta), "ok"], 6 * I + I // 2)
        I = pick()
        TO = I // 2 // US * US
        add("answer at the timeout %+d ns" % delta, I, TO, ["ok", "slow:%d" % (TO + delta), "ok"], 3 * I + I // 2)
        I = pick()
        add("timeout at the second tick %+d ns" % delta, I, 2 * I + delta, ["ok", "hang", "ok"], 5 * I + I // 2)
        I = pick()
        add("remove at a tick %+d ns" % delta, I, I // 2 // US * US, ["ok"], 3 * I + delta, pre=rnd.choice([0, 7]))
        I = pick()
        add("remove at a result %+d ns" % delta, I, I // 2 // US * US, ["ok", "ok", "slow:%d" % (I // 4 // US * US)], 2 * I + I // 4 // US * US + delta)
        I = pick()
        add("remove at a probe timeout %+d ns" % delta, I, I // 2 // US * US, ["ok", "ok", "hang"], 2 * I + I // 2 // US * US + delta)
    I = pick()
    add("slow then slow then on the grid again", I, 5 * I, ["ok", "slow:%d" % (5 * I // 2), "slow:%d" % (7 * I // 10 // US * US), "ok"], 8 * I + I // 2)
    I = pick()
    add("timeout equals interval, hanging", I, I, ["ok", "hang"], 6 * I + 1)
    I = pick()
    add("every probe one ns short of the interval", I, 2 * I, ["slow:%d" % (I - 1)], 6 * I)
    I = pick()
    add("every probe exactly the interval", I, 2 * I, ["slow:%d" % I], 6 * I)
    I = pick()
    add("every probe one ns more than the interval", I, 2 * I, ["slow:%d" % (I + 1)], 6 * I)
    I = pick()
    add("never healthy: stopped by the deploy timeout", I, I // 2 // US * US, ["refused", "status:503", "hang"], 9 * I, D=rnd_us(rnd, 2 * I, 7 * I), remove=False)
    I = pick()
    add("no remove: stopped at the end of the run (on a tick)", I, I // 2 // US * US, ["ok"], 4 * I, remove=False)
    I = pick()
    add("removed at once", I, I // 2 // US * US, ["ok"], 0, pre=3)
    I = pick()
    add("removed during the first probe", I, 3 * I, ["slow:%d" % (2 * I)], I + 7, pre=11)
    return out


# ---------------------------------------------------------- observation ----

def answer_term(o):
    """outcome string of the probe responder -> Ticker.answer"""
    if o == "ok":
        return "(Some 0, true)"
    if o == "refused":
        return "(Some 0, false)"
    if o == "hang":
        return "(None, false)"
    parts = o.split(":")
    if parts[0] == "status":
        return "(Some 0, %s)" % bool_lit(200 <= int(parts[1]) <= 299)
    if parts[0] == "slow":
        st = int(parts[2]) if len(parts) > 2 else 200
        return "(Some %d, %s)" % (int(parts[1]), bool_lit(200 <= st <= 299))
    raise ValueError(o)


def observe(p, o):
    """What the trace says about the probe loop of the target: t0 (deploy issued), the Close instant and who called it,
    the probe-sent / probe-apply events in order.  Returns (obs dict, anomalies)."""
    bad = []
    t0 = stop = None
    who = None
    evs = []
    sent_outcomes = []
    tid = "T0:" + TARGET.decode()
    for e in o["events"]:
        k, a = e["kind"], e["args"]
        if k == "issue" and a[0] == "c1":
            t0 = e["t"]
        elif k == "probe-sent" and a[0] == TARGET.decode():
            evs.append(("sent", e["t"]))
            sent_outcomes.append(a[1])
        elif k == "probe-apply":
            if a[0] != tid:
                bad.append("probe result for an unexpected target %s" % a[0])
            evs.append(("result", e["t"], bool(a[1])))
        elif k == "probe-stop":
            if stop is not None:
                bad.append("second probe-stop")
            else:
                stop, who = e["t"], e["g"]
    if t0 is None:
        bad.append("no deploy issued")
    if stop is None:
        bad.append("health checks never stopped")
    expected_t0 = p["pre"]
    if t0 is not None and t0 != expected_t0:
        bad.append("deploy issued at %d, expected %d" % (t0, expected_t0))
    src = None
    if stop is not None and t0 is not None:
        if who == "c2" and p["remove"] and stop == t0 + p["run"]:
            src = "remove"
        elif stop == t0 + p["deploy_timeout"] and who != "c2":
            src = "deploy-timeout"
        elif stop == o["t_end"]:
            src = "end-of-run"
        else:
            bad.append("Close at %d by %s is none of: remove at %d, deploy timeout at %d, end of run at %d" %
                       (stop, who, t0 + p["run"], t0 + p["deploy_timeout"], o["t_end"]))
    # the k-th probe got the k-th scripted answer
    for k, oc in enumerate(sent_outcomes):
        want = p["script"][min(k, len(p["script"]) - 1)]
        if oc != want:
            bad.append("probe %d was answered by '%s', scripted '%s'" % (k, oc, want))
            break
    return {"t0": t0, "stop": stop, "stop_by": src, "events": evs}, bad


def padded_script(p, ob):
    n = (ob["stop"] - ob["t0"]) // p["interval"] + len(p["script"]) + 3
    s = list(p["script"])
    return s + [s[-1]] * (n - len(s))


def case_term(p, ob):
    obs = "; ".join("OSent %d" % e[1] if e[0] == "sent" else "OResult %d %s" % (e[1], bool_lit(e[2])) for e in ob["events"])
    return "mkCase %d %d %d [%s] (Some %d) [%s]" % (ob["t0"], p["interval"], p["timeout"],
                                                   "; ".join(answer_term(x) for x in padded_script(p, ob)), ob["stop"], obs)


def evaluate(work, terms, tag, shard=60):
    """[(agrees, monitor, stats)] per case, computed in the kernel."""
    jobs = [(s, terms[s:s + shard]) for s in range(0, len(terms), shard)]

    def ev(job):
        s, ts = job
        body = "Definition cases : list case := [\n%s].\n" % ";\n".join(ts)
        body += "Definition R := Eval vm_compute in map (fun c => (agrees c, monitor c, fuel_ok c, stats c)) cases.\n"
        return s, coq_eval(work, "%s_%d" % (tag, s), IMPORTS, body, "R")
    out = [None] * len(terms)
    with ThreadPoolExecutor(max_workers=8) as ex:
        for s, txt in ex.map(ev, jobs):
            vals = m4x.parse_coq_value(txt)
            if not isinstance(vals, list) or len(vals) != len(terms[s:s + shard]):
                raise RuntimeError("unexpected result of the kernel evaluation: " + txt[:300])
            for k, v in enumerate(vals):
                out[s + k] = v
    return out


def predicted(work, term, tag):
    body = "Definition R := Eval vm_compute in predicted (%s).\n" % term
    txt = coq_eval(work, tag, IMPORTS, body, "R")
    return re.sub(r"\s+", " ", txt)


# ------------------------------------------------------------------ run ----

PROP_FILES = ["C09probe.v", "C09probelink.v"]
COQ_TARGETS = ["props/C09probe.vo", "props/C09probelink.vo", "corr/C09probecorr.vo"]


def merge_obligations(work, res, ok, blog):
    """add the theorems of props/C09probe.v and props/C09probelink.v to the obligations already recorded in res"""
    all_ok, log_txt = True, ""
    for f in PROP_FILES:
        before = {k: res.coverage.get(k) for k in ("obligations", "discharged", "theorems", "checker_cmd", "trusted_base")}
        proofs_ok, pa = proof_obligations(work, res, f, ok, blog)
        all_ok = all_ok and proofs_ok
        log_txt += pa
        if before["obligations"] is not None:
            res.coverage["obligations"] += before["obligations"]
            res.coverage["discharged"] += before["discharged"]
            res.coverage["theorems"] = before["theorems"] + res.coverage["theorems"]
            res.coverage["checker_cmd"] = before["checker_cmd"] + " ; coqc props/" + f
            res.coverage["trusted_base"] = before["trusted_base"] + [x for x in res.coverage["trusted_base"] if x not in before["trusted_base"]]
    return all_ok, log_txt


def run_probe(tier, seed, res):
    """Returns a summary dict; violations and coverage go to `res`."""
    t_begin = time.time()
    work = Work("C09probe")
    try:
        ok, blog = coq_build(COQ_TARGETS)
        proofs_ok, pa = merge_obligations(work, res, ok, blog)
        gate = coq_gate()
        if gate:
            proofs_ok = False
            pa += "\nforbidden constructs: " + "; ".join(gate[:10])
        rnd = random.Random(seed * 1000003 + 909)
        n = 60 if tier == "quick" else 600
        params = directed(rnd)
        params += [gen_params(rnd, i) for i in range(max(0, n - len(params)))]
        scenarios = [scenario(p) for p in params]
        harness_ok, gout, outs = m5.run_scenarios(work, scenarios)
        obs, anomalies, terms, rows = [], [], [], []
        if harness_ok:
            for j, (p, o) in enumerate(zip(params, outs)):
                ob, bad = observe(p, o)
                obs.append(ob)
                if bad:
                    anomalies.append((j, bad))
            if not anomalies and ok:
                terms = [case_term(p, ob) for p, ob in zip(params, obs)]
                rows = evaluate(work, terms, "C09probe")
        mon_fail = [j for j, r in enumerate(rows) if not r[1]]
        disagree = [j for j, r in enumerate(rows) if not r[0]]
        fuel_bad = [j for j, r in enumerate(rows) if not r[2]]
        tot = [0, 0, 0, 0, 0]
        for r in rows:
            for q in range(5):
                tot[q] += r[3][q]
        dist, stops, kinds = {}, {}, {}
        ties = {"stop_on_a_tick": 0, "stop_at_a_result": 0, "result_on_a_tick": 0, "answer_exactly_at_the_timeout": 0}
        for p, ob in zip(params, obs):
            key = "timeout %s interval / %s" % (p["rel"], p["profile"])
            dist[key] = dist.get(key, 0) + 1
            stops[str(ob["stop_by"])] = stops.get(str(ob["stop_by"]), 0) + 1
            kinds[p["kind"] if p["kind"] == "random" else "directed"] = kinds.get(p["kind"] if p["kind"] == "random" else "directed", 0) + 1
            if ob["t0"] is None or ob["stop"] is None:
                continue
            if ob["stop"] > ob["t0"] and (ob["stop"] - ob["t0"]) % p["interval"] == 0:
                ties["stop_on_a_tick"] += 1
            if any(e[0] == "result" and e[1] == ob["stop"] for e in ob["events"]):
                ties["stop_at_a_result"] += 1
            ties["result_on_a_tick"] += sum(1 for a, b in zip(ob["events"], ob["events"][1:]) if a[0] == "sent" and b[0] == "result"
                                            and b[1] > a[1] and (b[1] - ob["t0"]) % p["interval"] == 0)
            ties["answer_exactly_at_the_timeout"] += sum(1 for a, b in zip(ob["events"], ob["events"][1:]) if a[0] == "sent" and b[0] == "result"
                                                          and b[1] - a[1] == p["timeout"] and b[2])
        exact = sum(1 for j, r in enumerate(rows) if r[3][3] == 0 and r[3][0] >= 3)
        distinct = len({json.dumps(s, sort_keys=True) for s in scenarios})
        nontrivial = sum(1 for r in rows if r[3][0] >= 3)
        summary = {
            "scenarios": len(scenarios), "compared_exactly_with_model": len(rows), "disagreements": len(disagree),
            "monitor_failures": len(mon_fail), "harness_anomalies": len(anomalies),
            "probes_sent": tot[0], "results": tot[1], "failing_results": tot[2], "sends_off_the_grid": tot[3],
            "abandoned_by_close": tot[4], "scenarios_entirely_on_the_grid": exact,
            "input_distribution": dist, "closed_by": stops, "generated": kinds, "ties_exercised": ties,
            "rule": "one evaluation = one scenario on the real code under testing/synctest (one target, its own interval / probe "
                    "timeout / scripted answers / stop instant); the observed instants of every probe-sent and probe-apply event "
                    "(ns, virtual clock) must equal Ticker.probe_times exactly (kernel, vm_compute) and satisfy the monitor "
                    "c09_probe_ok; distinct by scenario JSON; non-trivial = at least three probes",
            "distinct_nontrivial": min(distinct, nontrivial),
            "wall_s": None,
        }
        res.coverage["probe_cadence"] = summary
        if "evaluations" not in res.coverage:      # stand-alone
            res.coverage.update({"evaluations": len(rows), "distinct_nontrivial": summary["distinct_nontrivial"], "rule": summary["rule"],
                                 "input_distribution": dist, "samples": [{"parameters": params[0], "observed": obs[0] if obs else None}]})
        else:
            res.coverage["evaluations"] += len(rows)
        res.assumptions += [
            "model/Ticker.v (probe loop of health_check.go) is hand-written; it is tied to the code by the exact comparison of "
            "tools/c09probe.py on the virtual clock of testing/synctest (Go's real time.Ticker / context.WithTimeout code runs, on fake time)",
            "ties between Close and the loop at one instant: the scenarios Close after everything else that happens at that "
            "instant (sleep; synctest.Wait; remove); a Close by the deploy timeout is kept 500 ns off every instant of the loop "
            "because Go's select between two ready channels is not determined",
        ]

        def payload(j, what, extra=None):
            pl = {"property": "C09", "clause": "probe cadence", "what": what, "seed": seed, "tier": tier, "scenario": scenarios[j],
                  "parameters": params[j], "observed": obs[j] if j < len(obs) else None,
                  "replay": "python3 /verif/tools/c09probe.py replay <this file>"}
            if j < len(terms):
                try:
                    pl["model_predicts"] = predicted(work, terms[j], "pred%d" % j)
                except Exception as ex:       # the replay file must be written in any case
                    pl["model_predicts"] = "evaluation failed: %s" % ex
            pl.update(extra or {})
            return pl
        if mon_fail:
            j = mon_fail[0]
            res.violation("probe-monitor-%d" % j, payload(j, "monitor c09_probe_ok false on the observed probe times of a target: a probe "
                                                             "missing / late / early / off the tick grid, overlapping checks, a wrong first "
                                                             "probe, a result later than the probe timeout, or activity after Close",
                                                          {"monitor": "c09_probe_ok", "failing_scenarios": len(mon_fail)}))
        elif disagree or anomalies or not harness_ok or not proofs_ok or (rows and fuel_bad):
            what = ("observed probe times differ from model/Ticker.v" if disagree else
                    "the harness run does not have the expected shape: " + "; ".join(anomalies[0][1]) if anomalies else
                    "harness does not build/run against the tree" if not harness_ok else
                    "proof obligations of props/C09probe.v / C09probelink.v do not check" if not proofs_ok else "script handed to the model too short")
            j = disagree[0] if disagree else anomalies[0][0] if anomalies else None
            pl = payload(j, what) if j is not None else {"property": "C09", "clause": "probe cadence", "what": what, "seed": seed, "tier": tier}
            pl["broken"] = "props/C09probe.v" if (not proofs_ok and harness_ok and not disagree and not anomalies) else \
                "model/Ticker.v vs health_check.go (corr.C09probecorr.agrees)"
            if m5.last_hang:
                pl["what"] = "a scenario did not end (watchdog)"
                pl["hang"] = m5.last_hang
            if not harness_ok:
                pl["harness_output"] = gout[-3000:]
            if not proofs_ok:
                pl["coq_output"] = (blog + pa)[-3000:]
            res.violation("probe-broken", pl, no_input=True)
        summary["wall_s"] = round(time.time() - t_begin, 1)
        return summary
    finally:
        work.cleanup()


class StandaloneResult(Result):
    """evidence to /verif/.work/C09probe-evidence.json instead of /verif/evidence/C09.json"""

    def finish(self, level="proof"):
        ev = {"property_id": self.prop, "part": "probe cadence (tools/c09probe.py stand-alone)", "tier": self.tier, "seed": self.seed,
              "level": level, "coverage": self.coverage, "assumptions": self.assumptions,
              "wall_s": round(time.time() - self.t0, 2), "violations": len(self.violations)}
        os.makedirs(WORKROOT, exist_ok=True)
        path = os.path.join(WORKROOT, "C09probe-evidence.json")
        with open(path, "w") as f:
            json.dump(ev, f, indent=1, sort_keys=True)
        log("evidence: " + path)
        for p, suffix in self.violations:
            print("VIOLATION property=%s replay=%s%s" % (self.prop, p, suffix))
        sys.stdout.flush()
        return 1 if self.violations else 0


def replay(path):
    """re-run the scenario of a replay file and print observed vs predicted"""
    pl = json.load(open(path))
    work = Work("C09probe-replay")
    try:
        p = pl["parameters"]
        ok, gout, outs = m5.run_scenarios(work, [pl["scenario"]])
        if not ok:
            print(gout[-3000:])
            return 1
        ob, bad = observe(p, outs[0])
        print("anomalies:", bad)
        print("observed :", ob)
        if not bad:
            term = case_term(p, ob)
            print("predicted:", predicted(work, term, "replay"))
            print("agrees, monitor, fuel, stats:", evaluate(work, [term], "replayev"))
        return 0
    finally:
        work.cleanup()


if __name__ == "__main__":
    if len(sys.argv) > 2 and sys.argv[1] == "replay":
        sys.exit(replay(sys.argv[2]))
    tier = sys.argv[1] if len(sys.argv) > 1 else "quick"
    seed = int(sys.argv[2]) if len(sys.argv) > 2 else int(os.environ.get("VERIF_SEED", "1"))
    r = StandaloneResult("C09", tier, seed)
    s = run_probe(tier, seed, r)
    log(json.dumps({k: v for k, v in s.items() if k != "rule"}, indent=1))
    sys.exit(r.finish())
