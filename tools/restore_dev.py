import sys; sys.path.insert(0,'/verif/tools')
import random, json
from vlib import *
import m5, m5lb, c01, m4x
SEC, MS = m5.SEC, m5.MS
H = m5.H
def gen_restored(k, f, pos):
    b = c01.Builder(random.Random(k*100+f*10+pos))
    b.meta["shape"] = {"mix": "restored", "k": k, "fails": f, "pos": pos}
    host, name = b"a.example.com", b"web"
    b.deploy(name, host, [["ok"] for _ in range(k)], 5*SEC, 500*MS, async_=False)
    for _ in range(pos):
        b.request(host, "burst")
    b.sleep(0)
    b.steps.append({"op": "restart", "id": "x1"})
    tn = b.meta["deploys"][0]["targets"][f]
    b.steps.append({"op": "probe_script", "targets": [{"name": H(tn.encode()), "probes": ["refused", "refused", "ok"]}]})
    for _ in range(2*k+1):
        b.request(host, "burst")
    b.sleep(1*SEC+100*MS)
    for _ in range(2*k+1):
        b.request(host, "burst")
    b.sleep(2*SEC)
    for _ in range(3*k+1):
        b.request(host, "burst")
    return b.finish()
work = Work("restoredev")
try:
    sm = [gen_restored(3,0,1), gen_restored(2,1,0)]
    ok, gout, outs = m5.run_scenarios(work, [s for s,_ in sm])
    print(ok, gout[-500:] if not ok else "")
    for o in outs:
        for e in o["events"]:
            if e["kind"] in ("lb-new","rotation","probe-apply","state-set","claim","lb-claim","restart","lb-dispose"): print(e["t"], e["g"], e["kind"], e["args"])
        print([ (r.get("id"), r.get("status"), r.get("served_by")) for r in o["results"] if r.get("op")=="request"])
    terms = ["(%s)" % m5.trace_term(o["events"]) for o in outs]
    expr = "fun tr => (reject_at tr, c09_fail_at tr, c09_rebuild_fail_at tr, c01_fail_at tr, c09_counts tr, c09_unprobed_claim_at tr)"
    rows = m4x.coq_map(work, m5lb.IMPORTS, "", terms, expr, "rs", shard=5)
    print(rows)
finally:
    work.cleanup()
