"""C20 — CLI options, validation and exit codes: correspondence of model/Cli.v
with the BUILT BINARY (./cmd/kamal-proxy of the current tree) and with
getEnvInt/getEnvBool (overlay test in package cmd), plus the proof obligations
of props/C20.v.

Parts
  (a) `run` option matrix: flag x prefixed variable x bare variable per option,
      observed through the listening sockets of the child and its debug log;
  (b) `deploy` pre-run validation with NO proxy running: refused before dialling
      vs dial error;
  (c) every client command against a running proxy, through a byte relay on the
      unix socket that records whether a connection was made and the error string
      of the net/rpc response (the proxy-side outcome, seen independently of the
      client under test);
  (d) `list` output for several deployed services, byte-compared with the model
      renderer and parsed back;
  (e) getEnvInt/getEnvBool on thousands of value strings (overlay test).
"""
import http.client
import http.server
import itertools
import random
import signal
import socket
import threading
from concurrent.futures import ThreadPoolExecutor

from vlib import *

KEYS = {"http-port": ("HTTP_PORT", 80), "https-port": ("HTTPS_PORT", 443), "debug": ("DEBUG", False)}
PRE_MSG = {
    "ErrMaxReq": "max-request-body can only be set when request buffering is enabled",
    "ErrMaxResp": "max-response-body can only be set when response buffering is enabled",
    "ErrTlsHost": "host must be set when using TLS",
    "ErrTlsRoot": "TLS settings must be specified on the root path service",
}
TRUE_SP = ["1", "t", "T", "TRUE", "true", "True"]
FALSE_SP = ["0", "f", "F", "FALSE", "false", "False"]

_procs = []
_procs_lock = threading.Lock()


def _register(p):
    with _procs_lock:
        _procs.append(p)
    return p


def kill_all():
    with _procs_lock:
        ps = list(_procs)
    for p in ps:
        if p.poll() is None:
            try:
                p.kill()
            except Exception:
                pass
    for p in ps:
        try:
            p.wait(timeout=5)
        except Exception:
            pass


def base_env(home, runtime, extra=None):
    """A minimal environment: nothing of the caller's leaks into the option lookup."""
    env = {"PATH": "/usr/bin:/bin", "HOME": home, "XDG_RUNTIME_DIR": runtime}
    if extra:
        env.update(extra)
    return env


def build_binary(work):
    out = work.path("kamal-proxy")
    p = subprocess.run(["go", "build", "-o", out, "./cmd/kamal-proxy"], cwd=REPO, env=go_env(),
                       stdout=subprocess.PIPE, stderr=subprocess.STDOUT, text=True, timeout=900)
    return (out if p.returncode == 0 and os.path.exists(out) else None), p.stdout


def free_port():
    s = socket.socket(socket.AF_INET6, socket.SOCK_STREAM)
    try:
        s.bind(("::", 0))
        return s.getsockname()[1]
    finally:
        s.close()


def free_ports(n):
    out = set()
    while len(out) < n:
        p = free_port()
        if p > 1024:
            out.add(p)
    return list(out)


def run_cmd(binary, argv, env, timeout=60):
    p = _register(subprocess.Popen([binary] + argv, env=env, stdout=subprocess.PIPE, stderr=subprocess.PIPE))
    try:
        out, err = p.communicate(timeout=timeout)
    except subprocess.TimeoutExpired:
        p.kill()
        out, err = p.communicate()
        return -9, out, err
    return p.returncode, out, err


# ------------------------------------------------------------ gob / rpc ----

def _gob_uint(buf, i):
    b = buf[i]
    if b < 0x80:
        return b, i + 1
    n = 256 - b
    return int.from_bytes(buf[i + 1:i + 1 + n], "big"), i + 1 + n


def _gob_int(buf, i):
    u, i = _gob_uint(buf, i)
    return (~(u >> 1) if u & 1 else u >> 1), i


def rpc_response_error(stream):
    """Error string of the first net/rpc Response in the server->client gob
    stream ('' when the call succeeded); None when there is no complete response."""
    i = 0
    try:
        while i < len(stream):
            ln, i = _gob_uint(stream, i)
            msg = stream[i:i + ln]
            if len(msg) < ln:
                return None
            i += ln
            tid, j = _gob_int(msg, 0)
            if tid < 0:
                continue                      # type definition
            field, fields = -1, {}
            while True:
                delta, j = _gob_uint(msg, j)
                if delta == 0:
                    break
                field += delta
                if field in (0, 2):
                    sl, j = _gob_uint(msg, j)
                    fields[field] = bytes(msg[j:j + sl])
                    j += sl
                elif field == 1:
                    fields[1], j = _gob_uint(msg, j)
                else:
                    return None
            if 0 not in fields:
                return None
            return fields.get(2, b"").decode("utf-8", "replace")
    except (IndexError, ValueError):
        return None
    return None


class Relay:
    """Unix-socket byte relay in front of the proxy's RPC socket."""

    def __init__(self, listen_path, upstream_path):
        self.listen_path, self.upstream = listen_path, upstream_path
        self.records = []
        self.lock = threading.Lock()
        self.srv = socket.socket(socket.AF_UNIX, socket.SOCK_STREAM)
        self.srv.bind(listen_path)
        self.srv.listen(16)
        self.stopping = False
        self.threads = []
        self.t = threading.Thread(target=self._accept, daemon=True)
        self.t.start()

    def _accept(self):
        while not self.stopping:
            try:
                c, _ = self.srv.accept()
            except OSError:
                return
            rec = {"data": bytearray(), "done": threading.Event()}
            with self.lock:
                self.records.append(rec)
            th = threading.Thread(target=self._serve, args=(c, rec), daemon=True)
            th.start()

    def _serve(self, c, rec):
        u = socket.socket(socket.AF_UNIX, socket.SOCK_STREAM)
        try:
            u.connect(self.upstream)
        except OSError:
            c.close()
            rec["done"].set()
            return

        def up():
            try:
                while True:
                    d = c.recv(65536)
                    if not d:
                        break
                    u.sendall(d)
            except OSError:
                pass
            try:
                u.shutdown(socket.SHUT_RDWR)
            except OSError:
                pass

        t = threading.Thread(target=up, daemon=True)
        t.start()
        try:
            while True:
                d = u.recv(65536)
                if not d:
                    break
                rec["data"] += d
                c.sendall(d)
        except OSError:
            pass
        for s in (c, u):
            try:
                s.close()
            except OSError:
                pass
        t.join(timeout=5)
        rec["done"].set()

    def mark(self):
        with self.lock:
            return len(self.records)

    def since(self, mark):
        with self.lock:
            recs = self.records[mark:]
        for r in recs:
            r["done"].wait(timeout=10)
        return recs

    def close(self):
        self.stopping = True
        try:
            self.srv.close()
        except OSError:
            pass
        try:
            os.unlink(self.listen_path)
        except OSError:
            pass


class Backends:
    """Tiny HTTP targets answering 200 to everything (health path included)."""

    def __init__(self, n):
        class H(http.server.BaseHTTPRequestHandler):
            def do_GET(self):
                if self.path.startswith("/slow?ms="):      # a request that stays in flight for that long
                    time.sleep(int(self.path.split("=", 1)[1]) / 1000.0)
                self.send_response(200)
                self.send_header("Content-Length", "2")
                self.end_headers()
                self.wfile.write(b"ok")

            def log_message(self, *a):
                pass

        class Quiet(http.server.ThreadingHTTPServer):
            def handle_error(self, request, client_address):
                pass                        # probes cut off when the proxy stops

        self.servers = []
        for _ in range(n):
            s = Quiet(("127.0.0.1", 0), H)
            s.daemon_threads = True
            threading.Thread(target=s.serve_forever, kwargs={"poll_interval": 0.05}, daemon=True).start()
            self.servers.append(s)
        self.ports = [s.server_address[1] for s in self.servers]

    def close(self):
        for s in self.servers:
            s.shutdown()
            s.server_close()


class Proxy:
    """`kamal-proxy run` in its own HOME / XDG_RUNTIME_DIR."""

    def __init__(self, binary, root, argv, env_extra=None):
        self.binary, self.root = binary, root
        self.home = os.path.join(root, "home")
        self.runtime = os.path.join(root, "run")
        os.makedirs(self.home, exist_ok=True)
        os.makedirs(self.runtime, exist_ok=True)
        self.stdout_path = os.path.join(root, "stdout.log")
        self.stderr_path = os.path.join(root, "stderr.log")
        self.env = base_env(self.home, self.runtime, env_extra)
        self.argv = argv
        self.p = None

    def start(self, timeout=15):
        self.so = open(self.stdout_path, "wb")
        self.se = open(self.stderr_path, "wb")
        self.p = _register(subprocess.Popen([self.binary, "run"] + self.argv, env=self.env, stdout=self.so, stderr=self.se))
        t0 = time.time()
        while time.time() - t0 < timeout:
            if self.p.poll() is not None:
                return False
            if b'"msg":"Server started"' in self.stdout():
                return True
            time.sleep(0.01)
        return False

    def stdout(self):
        try:
            return open(self.stdout_path, "rb").read()
        except OSError:
            return b""

    def stderr(self):
        try:
            return open(self.stderr_path, "rb").read()
        except OSError:
            return b""

    def listening_ports(self):
        """Ports of the TCP sockets in LISTEN state owned by the child."""
        pid = self.p.pid
        inodes = set()
        try:
            for fd in os.listdir("/proc/%d/fd" % pid):
                try:
                    l = os.readlink("/proc/%d/fd/%s" % (pid, fd))
                except OSError:
                    continue
                if l.startswith("socket:["):
                    inodes.add(l[8:-1])
        except OSError:
            return []
        ports = []
        for f in ("tcp", "tcp6"):
            try:
                lines = open("/proc/%d/net/%s" % (pid, f)).read().splitlines()[1:]
            except OSError:
                continue
            for ln in lines:
                x = ln.split()
                if x[3] == "0A" and x[9] in inodes:
                    ports.append(int(x[1].rsplit(":", 1)[1], 16))
        return sorted(ports)

    def state(self):
        path = os.path.join(self.home, ".config", "kamal-proxy", "kamal-proxy.state")
        try:
            return json.load(open(path))
        except (OSError, ValueError):
            return None

    def stop(self):
        if self.p is not None and self.p.poll() is None:
            self.p.send_signal(signal.SIGTERM)
            try:
                self.p.wait(timeout=10)
            except subprocess.TimeoutExpired:
                self.p.kill()
                self.p.wait(timeout=5)
        for f in (getattr(self, "so", None), getattr(self, "se", None)):
            if f:
                f.close()


def probe_kind(port):
    """'http' when a plain HTTP request is answered by the proxy, 'https' when the
    port answers that it expects TLS."""
    try:
        s = socket.create_connection(("127.0.0.1", port), timeout=3)
        s.sendall(b"GET / HTTP/1.0\r\nHost: probe.invalid\r\n\r\n")
        data = b""
        while len(data) < 4096:
            d = s.recv(4096)
            if not d:
                break
            data += d
        s.close()
    except OSError:
        return "none"
    if b"HTTPS server" in data:
        return "https"
    if data.startswith(b"HTTP/1."):
        return "http"
    return "none"


# -------------------------------------------------------- (a) run matrix ----

MALFORMED_INT = ["abc", "80x", " 8080", "8080 ", "0x1F90", "8_080", "99999999999999999999", "+", "-", "8080.0",
                 "1e4", "--8080", "\t8080", "8080\n"]
MALFORMED_BOOL = ["yes", "on", "TRUE ", "tRuE", "2", " true", "y", "enabled", "tru", "T1"]

_default_locks = {80: threading.Lock(), 443: threading.Lock()}


def gen_run_cases(rnd, tier):
    cases = []
    reps = 1 if tier == "quick" else 3
    for _ in range(reps):
        for opt in ("http-port", "https-port"):
            for flag in (False, True):
                for pref in ("absent", "valid", "malformed", "empty"):
                    for bare in ("absent", "valid", "malformed"):
                        cases.append({"kind": "run", "opt": opt, "flag": flag, "pref": pref, "bare": bare,
                                      "malformed": [rnd.choice(MALFORMED_INT), rnd.choice(MALFORMED_INT)],
                                      "style": rnd.choice(["plain", "plus", "zeros"])})
        for flag in ("absent", "true", "false"):
            for pref in ("absent", "valid-true", "valid-false", "malformed", "empty"):
                for bare in ("absent", "valid-true", "valid-false", "malformed"):
                    cases.append({"kind": "run", "opt": "debug", "flag": flag, "pref": pref, "bare": bare,
                                  "malformed": [rnd.choice(MALFORMED_BOOL), rnd.choice(MALFORMED_BOOL)],
                                  "spell": [rnd.randrange(6), rnd.randrange(6)]})
    return cases


def port_text(port, style):
    return {"plain": "%d", "plus": "+%d", "zeros": "00%d"}[style] % port


def concretise_run_case(c):
    """Concrete argv / env of the case, with fresh free ports."""
    opt = c["opt"]
    key, default = KEYS[opt]
    env_extra, argv = {}, []
    if opt == "debug":
        ports = free_ports(2)
        argv += ["--http-port", str(ports[0]), "--https-port", str(ports[1])]
        if c["flag"] == "true":
            argv.append("--debug")
        elif c["flag"] == "false":
            argv.append("--debug=false")
        for which, name, k in (("pref", "KAMAL_PROXY_" + key, 0), ("bare", key, 1)):
            v = c[which]
            if v == "valid-true":
                env_extra[name] = TRUE_SP[c["spell"][k]]
            elif v == "valid-false":
                env_extra[name] = FALSE_SP[c["spell"][k]]
            elif v == "malformed":
                env_extra[name] = c["malformed"][k]
            elif v == "empty":
                env_extra[name] = ""
    else:
        ports = free_ports(4)
        other = "https-port" if opt == "http-port" else "http-port"
        argv += ["--" + other, str(ports[3])]
        if c["flag"]:
            argv += ["--" + opt, str(ports[0])]
        for which, name, k in (("pref", "KAMAL_PROXY_" + key, 1), ("bare", key, 2)):
            v = c[which]
            if v == "valid":
                env_extra[name] = port_text(ports[k], c["style"])
            elif v == "malformed":
                env_extra[name] = c["malformed"][k - 1]
            elif v == "empty":
                env_extra[name] = ""
    c["argv"] = ["run"] + argv
    c["env"] = env_extra
    return argv, env_extra


def exec_run_case(binary, root, c):
    """Starts `kamal-proxy run` for the case and observes the child."""
    opt = c["opt"]
    default = KEYS[opt][1]
    lock = _default_locks[default] if (opt != "debug" and not c["flag"]) else None
    obs = {"started": False}
    if lock:
        lock.acquire()
        lf = open(os.path.join(WORKROOT, "c20-port-%d.lock" % default), "w")
        fcntl.flock(lf, fcntl.LOCK_EX)
    try:
        for attempt in range(5):
            argv, env_extra = concretise_run_case(c)
            px = Proxy(binary, os.path.join(root, "try%d" % attempt), argv, env_extra)
            try:
                if px.start():
                    obs["started"] = True
                    ports_seen = px.listening_ports()
                    kinds = {p: probe_kind(p) for p in ports_seen}
                    obs["listening"] = ports_seen
                    obs["http"] = [p for p in ports_seen if kinds[p] == "http"]
                    obs["https"] = [p for p in ports_seen if kinds[p] == "https"]
                    m = re.search(rb'"msg":"Server started","http":(\d+),"https":(\d+)', px.stdout())
                    obs["logged"] = [int(m.group(1)), int(m.group(2))] if m else None
                    if opt == "debug":
                        rc, _, _ = run_cmd(binary, ["resume", "verif-no-such-service"], base_env(px.home, px.runtime))
                        obs["probe_rc"] = rc
                    px.stop()
                    obs["debug"] = b'"level":"DEBUG"' in px.stdout()
                    obs["exit"] = px.p.returncode
                    break
                err = px.stderr().decode("utf-8", "replace")
                obs["stderr"] = err[-400:]
                if "address already in use" not in err:
                    break
                time.sleep(0.3 * (attempt + 1))
            finally:
                px.stop()
    finally:
        if lock:
            fcntl.flock(lf, fcntl.LOCK_UN)
            lf.close()
            lock.release()
    return obs


def run_case_value(c, o):
    """The observed value of the option under test, or None when it cannot be read."""
    if not o.get("started"):
        return None
    if c["opt"] == "debug":
        return o["debug"] if o.get("probe_rc") == 1 else None
    k = "http" if c["opt"] == "http-port" else "https"
    if len(o[k]) != 1 or o["logged"] is None or sorted(o["logged"]) != o["listening"]:
        return None
    if o["logged"][0 if k == "http" else 1] != o[k][0]:
        return None
    return o[k][0]


# ------------------------------------------------ (b) deploy validation ----

HOST_VARIANTS = [
    ([], []),                                          # flag absent
    (["--host", "a.example"], ["a.example"]),
    (["--host", "a.example,b.example"], ["a.example", "b.example"]),
    (["--host", ""], []),                              # pflag: empty value = empty slice
    (["--host", ","], ["", ""]),
    (["--host", "a.example", "--host", ""], ["a.example"]),
    (["--host", ",a.example"], ["", "a.example"]),
]
PREFIX_VARIANTS = [
    ([], []),
    (["--path-prefix", "/"], ["/"]),
    (["--path-prefix", "/api"], ["/api"]),
    (["--path-prefix", "/api,/"], ["/api", "/"]),
    (["--path-prefix", "api", "--path-prefix", "/v2/"], ["api", "/v2/"]),
    (["--path-prefix", "//"], ["//"]),
    (["--path-prefix", ""], []),
    (["--path-prefix", "/api/,//x//"], ["/api/", "//x//"]),
]
MAXBODY_VARIANTS = [([], False), (["5"], True), (["0"], True)]       # "0" = changed to the default value
BUFFER_VARIANTS = [([], False), ([""], True), (["=false"], True)]   # "=false" = changed, yet off
FWD_VARIANTS = [([], None), (["--forward-headers"], True), (["--forward-headers=false"], False)]


def deploy_case(tls, h, p, mreq, breq, mresp, bresp, fwd):
    argv = ["deploy", "svc", "--target", "127.0.0.1:9"]
    if tls:
        argv.append("--tls")
    argv += HOST_VARIANTS[h][0] + PREFIX_VARIANTS[p][0]
    if MAXBODY_VARIANTS[mreq][1]:
        argv += ["--max-request-body", MAXBODY_VARIANTS[mreq][0][0]]
    if BUFFER_VARIANTS[breq][1]:
        argv.append("--buffer-requests" + BUFFER_VARIANTS[breq][0][0])
    if MAXBODY_VARIANTS[mresp][1]:
        argv += ["--max-response-body", MAXBODY_VARIANTS[mresp][0][0]]
    if BUFFER_VARIANTS[bresp][1]:
        argv.append("--buffer-responses" + BUFFER_VARIANTS[bresp][0][0])
    argv += FWD_VARIANTS[fwd][0]
    return {"kind": "deploy", "argv": argv, "tls": tls, "hosts": HOST_VARIANTS[h][1], "prefixes": PREFIX_VARIANTS[p][1],
            "maxreq": MAXBODY_VARIANTS[mreq][1], "bufreq": BUFFER_VARIANTS[breq][1],
            "maxresp": MAXBODY_VARIANTS[mresp][1], "bufresp": BUFFER_VARIANTS[bresp][1], "fwd": FWD_VARIANTS[fwd][1]}


def gen_deploy_cases(rnd, tier):
    cases = []
    # the boolean core, exhaustively: tls x host given x root listed x four Changed bits
    for tls, h, p, mreq, breq, mresp, bresp in itertools.product((False, True), (0, 1), (1, 2), (0, 1), (0, 1), (0, 1), (0, 1)):
        cases.append(deploy_case(tls, h, p, mreq, breq, mresp, bresp, 0))
    # every host variant x every prefix variant, with and without TLS
    for tls, h, p in itertools.product((False, True), range(len(HOST_VARIANTS)), range(len(PREFIX_VARIANTS))):
        cases.append(deploy_case(tls, h, p, 0, 0, 0, 0, 0))
    # every way of giving the body limits and the buffering flags
    for mreq, breq, mresp, bresp in itertools.product(range(3), range(3), range(3), range(3)):
        cases.append(deploy_case(False, 0, 0, mreq, breq, mresp, bresp, 0))
    space = list(itertools.product((False, True), range(len(HOST_VARIANTS)), range(len(PREFIX_VARIANTS)),
                                   range(3), range(3), range(3), range(3), range(3)))
    if tier == "quick":
        picked = rnd.sample(space, 400)
    else:
        picked = space
    for t in picked:
        cases.append(deploy_case(*t))
    return cases


def exec_deploy_case(binary, home, runtime, c):
    rc, out, err = run_cmd(binary, c["argv"], base_env(home, runtime))
    sock = os.path.join(runtime, "kamal-proxy.sock")
    text = err.decode("utf-8", "replace")
    refused = None
    for k, m in PRE_MSG.items():
        if text == "Error: %s\n" % m:
            refused = k
    dial_msg = "dial unix %s: connect: no such file or directory" % sock
    dialed = (text == "Error: %s\n" % dial_msg)
    return {"exit": rc, "stdout": out.hex(), "stderr": err.hex(), "refused": refused, "dialed": dialed, "dial_msg": dial_msg}


# ------------------------------------- (c) client commands, (d) list ----

class Session:
    """One proxy + relay + backends; client commands run one after the other."""

    def __init__(self, binary, root, nback=3):
        self.binary, self.root = binary, root
        os.makedirs(root, exist_ok=True)
        self.backends = Backends(nback)
        self.proxy = None
        self.relay = None
        self.client_rt = os.path.join(root, "client-run")
        self.nosock_rt = os.path.join(root, "nosock-run")
        os.makedirs(self.client_rt, exist_ok=True)
        os.makedirs(self.nosock_rt, exist_ok=True)
        self.steps = []

    def start(self):
        for attempt in range(4):
            ports = free_ports(2)
            px = Proxy(self.binary, os.path.join(self.root, "proxy%d" % attempt),
                       ["--http-port", str(ports[0]), "--https-port", str(ports[1])])
            px.http_port = ports[0]
            if px.start():
                self.proxy = px
                self.relay = Relay(os.path.join(self.client_rt, "kamal-proxy.sock"),
                                   os.path.join(px.runtime, "kamal-proxy.sock"))
                return True
            px.stop()
        return False

    def target(self, i):
        return "127.0.0.1:%d" % self.backends.ports[i]

    def run(self, argv, expect, dial=True, note=None, deploy=None):
        """dial=False: run with an XDG_RUNTIME_DIR that has no socket.
        deploy: the parsed deploy flags, when the step is also a validation case."""
        rt = self.client_rt if dial else self.nosock_rt
        mark = self.relay.mark()
        rc, out, err = run_cmd(self.binary, argv, base_env(self.proxy.home, rt), timeout=60)
        recs = self.relay.since(mark)
        step = {"kind": "exit", "argv": argv, "expect": expect, "socket": dial, "exit": rc, "stdout": out.hex(),
                "stderr": err.hex(), "connections": len(recs)}
        if note:
            step["note"] = note
        if deploy:
            step["deploy"] = deploy
        if recs:
            step["rpc_error"] = rpc_response_error(bytes(recs[0]["data"]))
        if not dial:
            step["dial_msg"] = "dial unix %s: connect: no such file or directory" % os.path.join(rt, "kamal-proxy.sock")
        self.steps.append(step)
        return step

    def close(self):
        if self.relay:
            self.relay.close()
        if self.proxy:
            self.proxy.stop()
        self.backends.close()


def closed_port():
    return free_port()


def scenario_commands(s):
    """Every client command, in states where the proxy accepts it and where it
    reports an error; plus argument errors and a missing socket."""
    T0, T1, T2 = s.target(0), s.target(1), s.target(2)
    dead = "127.0.0.1:%d" % closed_port()
    fast = ["--deploy-timeout", "400ms", "--health-check-interval", "100ms"]
    r = s.run
    r(["list"], "ok")
    r(["deploy", "web", "--target", T0], "ok")
    r(["deploy", "web2", "--target", T1], "rpc", note="host conflict")
    r(["deploy", "api", "--target", T1, "--host", "api.example"], "ok")
    r(["deploy", "bad", "--target", dead, "--host", "bad.example"] + fast, "rpc", note="unhealthy target")
    r(["deploy", "bad2", "--target", "not a host!", "--host", "bad2.example"], "rpc", note="invalid target")
    r(["deploy", "web"], "validation", note="--target missing")
    r(["deploy", "--target", T0], "validation", note="service missing")
    r(["deploy", "web", "--target", T0, "--no-such-flag"], "validation")
    r(["deploy", "web", "--target", T0, "--tls"], "validation", note="TLS without host, proxy running",
      deploy={'tls': True, 'hosts': [], 'prefixes': [], 'maxreq': False, 'bufreq': False, 'maxresp': False, 'bufresp': False, 'fwd': None})
    r(["deploy", "web", "--target", T0, "--tls", "--host", "w.example", "--path-prefix", "/x"], "validation",
      deploy={'tls': True, 'hosts': ['w.example'], 'prefixes': ['/x'], 'maxreq': False, 'bufreq': False, 'maxresp': False, 'bufresp': False, 'fwd': None})
    r(["deploy", "web", "--target", T0, "--max-request-body", "10"], "validation",
      deploy={'tls': False, 'hosts': [], 'prefixes': [], 'maxreq': True, 'bufreq': False, 'maxresp': False, 'bufresp': False, 'fwd': None})
    r(["deploy", "web", "--target", T0, "--max-response-body", "10", "--buffer-requests"], "validation",
      deploy={'tls': False, 'hosts': [], 'prefixes': [], 'maxreq': False, 'bufreq': True, 'maxresp': True, 'bufresp': False, 'fwd': None})
    r(["deploy", "web", "--target", T0, "--tls-certificate-path", "/nonexistent.pem"], "validation")
    r(["remove", "nosuch"], "rpc")
    r(["rm"], "validation")
    r(["pause", "nosuch"], "rpc")
    r(["pause", "web"], "ok")
    r(["pause", "web", "--max-pause", "bogus"], "validation")
    r(["stop", "nosuch"], "rpc")
    r(["stop", "api", "--message", "down for now"], "ok")
    r(["resume", "nosuch"], "rpc")
    r(["resume", "web"], "ok")
    r(["resume", "api"], "ok")
    r(["resume"], "validation")
    r(["rollout", "set", "web", "--percent", "50"], "rpc", note="no rollout targets")
    r(["rollout", "set", "web"], "validation", note="neither --percent nor --list")
    r(["rollout", "deploy", "nosuch", "--target", T2], "rpc")
    r(["rollout", "deploy", "web", "--target", dead] + fast[:2], "rpc", note="unhealthy rollout target")
    r(["rollout", "deploy", "web"], "validation")
    r(["rollout", "deploy", "web", "--target", T2], "ok")
    r(["rollout", "set", "web", "--percent", "50"], "ok")
    r(["rollout", "set", "web", "--list", "alice,bob"], "ok")
    r(["rollout", "set", "nosuch", "--percent", "5"], "rpc")
    r(["rollout", "stop", "nosuch"], "rpc")
    r(["rollout", "stop", "web"], "ok")
    r(["rollout", "stop"], "validation")
    r(["list", "extra"], "validation")
    r(["ls"], "ok")
    r(["remove", "api"], "ok")
    r(["remove", "api"], "rpc", note="already removed")
    r(["frobnicate"], "validation", note="unknown command")
    for argv in (["deploy", "web", "--target", T0], ["remove", "web"], ["pause", "web"], ["stop", "web"],
                 ["resume", "web"], ["list"], ["rollout", "deploy", "web", "--target", T0],
                 ["rollout", "set", "web", "--percent", "1"], ["rollout", "stop", "web"]):
        r(argv, "dial", dial=False)
    r(["remove", "web"], "ok")
    r(["list"], "ok")
    # a redeploy whose new target is healthy at once while the replaced target still has a request in flight for longer than
    # the deploy timeout (and well within the drain timeout): the proxy answers - success - only after the drain; the command
    # must wait for that answer and exit 0
    r(["deploy", "slow", "--target", T0, "--host", "slow.example"], "ok")
    done = []

    def inflight():
        try:
            c = http.client.HTTPConnection("127.0.0.1", s.proxy.http_port, timeout=30)
            c.request("GET", "/slow?ms=4200", headers={"Host": "slow.example"})
            done.append(c.getresponse().status)
        except Exception as ex:      # noqa
            done.append(repr(ex))
    th = threading.Thread(target=inflight, daemon=True)
    th.start()
    time.sleep(0.4)
    st = r(["deploy", "slow", "--target", T1, "--host", "slow.example", "--deploy-timeout", "1s", "--drain-timeout", "20s"], "ok",
           note="redeploy that has to wait ~4 s for the drain of the replaced target (deploy timeout 1 s)")
    th.join(10)
    st["inflight_request"] = done[:1]
    r(["remove", "slow"], "ok")


LIST_SERVICES = [
    # name, host variant, prefix variant, targets (backend indexes), tls, fwd variant, then: pause / stop
    ("web", 0, 0, [0], False, 0, None),
    ("api-2", 2, 4, [0, 1], False, 1, None),
    ("Web", (["--host", "*.wild.example"], ["*.wild.example"]), 1, [2], False, 2, None),
    ("secure", (["--host", "s.example"], ["s.example"]), 0, [1], True, 0, None),
    ("secure2", (["--host", "s2.example"], ["s2.example"]), 5, [1], True, 1, "pause"),
    ("api_1", 1, (["--path-prefix", "x"], ["x"]), [2], False, 0, "stop"),
    ("a", (["--host", "c.example,d.example,e.example"], ["c.example", "d.example", "e.example"]), 0, [0], False, 0, "pause"),
    ("ab", (["--host", "c.example"], ["c.example"]), (["--path-prefix", "/deep/er/,/other"], ["/deep/er/", "/other"]), [1, 2, 0], False, 0, None),
    ("z.9", (["--host", "z.example"], ["z.example"]), 0, [0], False, 0, None),
    # services below a path prefix of hosts whose root-path services have TLS on / off: `list` shows the TLS flag they inherit
    ("secure-api", (["--host", "s.example"], ["s.example"]), (["--path-prefix", "/api"], ["/api"]), [2], False, 0, None),
    ("z-api", (["--host", "z.example"], ["z.example"]), (["--path-prefix", "/api,/v2"], ["/api", "/v2"]), [1], False, 0, None),
    # not ASCII, and the widest cell of its column (name and host): columns are sized and padded in bytes
    ("\u00fcberwachung-der-dienste", (["--host", "b\u00fccher-und-caf\u00e9s.example"], ["b\u00fccher-und-caf\u00e9s.example"]), 0, [2], False, 0, None),
]


def scenario_list(s, rnd, tier):
    """Deploys services of some variety and reads `list` after each change.
    Returns the list cases (services as the harness knows them, stdout)."""
    cases = []
    known = {}
    first = len(s.steps)

    def effective(v):
        """the TLS flag in force: a service that does not serve the root path follows the root-path service of its (first) host"""
        d = v["deploy"]
        is_root = lambda ps: not ps or any(x.rstrip("/") == "" for x in ps)      # "/", "//", ... normalise to the root path
        if is_root(d["prefixes"]):
            return v
        h = d["hosts"][0] if d["hosts"] else ""
        roots = [w for w in known.values() if is_root(w["deploy"]["prefixes"]) and
                 (h in w["deploy"]["hosts"] or (not w["deploy"]["hosts"] and h == ""))]
        return dict(v, deploy=dict(d, tls=bool(roots and roots[0]["deploy"]["tls"])))

    def snapshot(tag):
        st = s.run(["list"], "ok")
        cases.append({"kind": "list", "tag": tag, "services": [effective(v) for v in known.values()], "stdout": st["stdout"],
                      "exit": st["exit"], "commands": [x["argv"] for x in s.steps[first:]]})

    snapshot("empty")
    specs = list(LIST_SERVICES)
    if tier != "quick":
        for k in range(12):
            specs.append(("r%d-%s" % (k, "".join(rnd.choice("abXY_-.") for _ in range(rnd.randint(0, 9)))),
                          (["--host", "h%d.example" % k], ["h%d.example" % k]), rnd.randrange(len(PREFIX_VARIANTS)),
                          [rnd.randrange(3) for _ in range(rnd.randint(1, 3))], False, rnd.randrange(3),
                          rnd.choice([None, None, "pause", "stop"])))
    rnd.shuffle(specs)
    for n, (name, hv, pv, tgts, tls, fwd, after) in enumerate(specs):
        hargv, hosts = HOST_VARIANTS[hv] if isinstance(hv, int) else hv
        pargv, prefixes = PREFIX_VARIANTS[pv] if isinstance(pv, int) else pv
        targets = [s.target(i) for i in tgts]
        argv = ["deploy", name, "--target", ",".join(targets)] + hargv + pargv + FWD_VARIANTS[fwd][0]
        if tls:
            argv.append("--tls")
        st = s.run(argv, "ok")
        st["deploy"] = {"tls": tls, "hosts": hosts, "prefixes": prefixes, "maxreq": False, "bufreq": False,
                        "maxresp": False, "bufresp": False, "fwd": FWD_VARIANTS[fwd][1]}
        state = s.proxy.state() or []
        ent = [e for e in state if e.get("name") == name]
        st["stored_fwd"] = ent[0]["target_options"]["forward_headers"] if ent else None
        if st["exit"] == 0:
            known[name] = {"name": name, "deploy": st["deploy"], "targets": targets, "state": "running"}
        if after and st["exit"] == 0:
            s2 = s.run([after, name], "ok")
            if s2["exit"] == 0:
                known[name]["state"] = "paused" if after == "pause" else "stopped"
        if n % 3 == 0 or n == len(specs) - 1:
            snapshot("after %d deploys" % (n + 1))
    for name in list(known)[:2]:
        st = s.run(["remove", name], "ok")
        if st["exit"] == 0:
            del known[name]
    snapshot("after removals")
    return cases


# --------------------------------------------- (e) env value differential ----

def gen_env_cases(rnd, tier):
    n = 3000 if tier == "quick" else 30000
    ints = ["0", "1", "80", "443", "8080", "65535", "65536", "-1", "+1", "007", "-0", "+0", "00000000000000000000012",
            "9223372036854775807", "9223372036854775808", "-9223372036854775808", "-9223372036854775809",
            "18446744073709551616", "999999999999999999", "1000000000000000000", "99999999999999999999999999",
            "0x10", "0X1f", "0b101", "0o17", "1_0", "1_000", "_1", "1e3", "1.0", "", " ", "+", "-", "+-1", "--1", "++1",
            " 1", "1 ", "\t1", "1\n", "١٢", "１２", "−1", "1,000", "١", "1 ", "NaN", "Inf", "nil"]
    bools = TRUE_SP + FALSE_SP + ["TRUE ", " true", "tRUE", "yes", "no", "on", "off", "y", "n", "Y", "N", "01", "00", "2",
                                  "-1", "T ", "t\n", "truee", "tru", "fals", "FALSE\x00"[:5], "ｔｒｕｅ", "True!", "+1", "1.0"]
    pool = ints + bools

    def mutate(s):
        b = bytearray(s.encode("utf-8"))
        op = rnd.randrange(4)
        if op == 0 and b:
            b[rnd.randrange(len(b))] = rnd.randint(1, 255)
        elif op == 1:
            b.insert(rnd.randint(0, len(b)), rnd.choice(b"0123456789+-_ xtTfF\t"))
        elif op == 2 and b:
            del b[rnd.randrange(len(b))]
        else:
            b += rnd.choice([b"0", b"9", b" ", b"_", b"e", b"\x7f", b"\xff"])
        return bytes(b)

    def value():
        k = rnd.random()
        if k < 0.35:
            return rnd.choice(pool).encode("utf-8")
        if k < 0.55:
            digits = "".join(rnd.choice("0123456789") for _ in range(rnd.choice([1, 2, 4, 5, 10, 17, 18, 19, 20, 21, 30])))
            return (rnd.choice(["", "", "+", "-"]) + digits).encode()
        if k < 0.65:
            return str(rnd.choice([2 ** 63, -2 ** 63, 2 ** 31, 2 ** 64]) + rnd.randint(-2, 2)).encode()
        return mutate(rnd.choice(pool))

    cases = []
    for s in pool:                                    # every pool string as prefixed and as bare variable
        cases.append({"kind": "env", "pref": s.encode("utf-8").hex(), "bare": None, "def_int": 80, "def_bool": False})
        cases.append({"kind": "env", "pref": None, "bare": s.encode("utf-8").hex(), "def_int": -7, "def_bool": True})
    while len(cases) < n:
        shape = rnd.random()
        pref = value().hex() if shape < 0.7 else None
        bare = value().hex() if rnd.random() < 0.6 else None
        cases.append({"kind": "env", "pref": pref, "bare": bare,
                      "def_int": rnd.choice([80, 443, 0, -1, 2 ** 63 - 1, -2 ** 63, rnd.randint(-10 ** 6, 10 ** 6)]),
                      "def_bool": rnd.random() < 0.5})
    return cases


ENV_KEY = b"VERIF_C20_OPT"


# ------------------------------------------------------------ Coq terms ----

def z_lit(n):
    return "(%d)%%Z" % n


def opt_lit(x, f):
    return "None" if x is None else "(Some %s)" % f(x)


def sb(s):
    return str_lit(s if isinstance(s, bytes) else s.encode("utf-8"))


def env_lit(pairs):
    return list_lit(["(%s, %s)" % (sb(k), sb(v)) for k, v in pairs])


def di_lit(d):
    return "(mkDeployIn %s %s %s %s %s %s %s %s)" % (
        bool_lit(d["tls"]), list_lit([sb(h) for h in d["hosts"]]), list_lit([sb(p) for p in d["prefixes"]]),
        bool_lit(d["maxreq"]), bool_lit(d["bufreq"]), bool_lit(d["maxresp"]), bool_lit(d["bufresp"]),
        opt_lit(d["fwd"], bool_lit))


def strip_error(stderr_bytes):
    """The message of a one-line 'Error: ...' output, else None."""
    if stderr_bytes.startswith(b"Error: ") and stderr_bytes.endswith(b"\n") and stderr_bytes.count(b"\n") >= 1:
        return stderr_bytes[7:-1]
    return None


def terms_of(c, o):
    """Coq case terms for one harness case and its observation (possibly several)."""
    k = c["kind"]
    if k == "run":
        key, default = KEYS[c["opt"]]
        env = sorted(c["env"].items())
        val = run_case_value(c, o)
        if val is None:
            return None
        if c["opt"] == "debug":
            flag = {"absent": None, "true": True, "false": False}[c["flag"]]
            return ["CaseRunBool %s %s %s %s %s" % (sb(key), bool_lit(default), opt_lit(flag, bool_lit), env_lit(env), bool_lit(val))]
        flag = int(c["argv"][c["argv"].index("--" + c["opt"]) + 1]) if c["flag"] else None
        return ["CaseRunInt %s %s %s %s %s" % (sb(key), z_lit(default), opt_lit(flag, z_lit), env_lit(env), z_lit(val))]
    if k == "env":
        env = []
        if c["pref"] is not None:
            env.append((b"KAMAL_PROXY_" + ENV_KEY, bytes.fromhex(c["pref"])))
        if c["bare"] is not None:
            env.append((ENV_KEY, bytes.fromhex(c["bare"])))
        return ["CaseRunInt %s %s None %s %s" % (sb(ENV_KEY), z_lit(c["def_int"]), env_lit(env), z_lit(int(o["int"]))),
                "CaseRunBool %s %s None %s %s" % (sb(ENV_KEY), bool_lit(c["def_bool"]), env_lit(env), bool_lit(o["bool"]))]
    if k == "deploy":
        err = bytes.fromhex(o["stderr"])
        obs = "(mkDeployObs %s %s None)" % (opt_lit(o["refused"], lambda x: x), bool_lit(o["dialed"]))
        v = PRE_MSG[o["refused"]].encode() if o["refused"] else None
        d = o["dial_msg"].encode() if not o["refused"] else None        # no socket: whoever dials fails
        return ["CaseDeploy %s %s" % (di_lit(c), obs),
                "CaseExit %s %s None %d%%N %s" % (opt_lit(v, sb), opt_lit(d, sb), o["exit"] if o["exit"] >= 0 else 255, sb(err))]
    if k == "exit":
        err = bytes.fromhex(o["stderr"])
        msg = strip_error(err)
        v = d = r = None
        if not o["socket"]:
            # nothing listens: a command that gets as far as dialling fails with this message
            if msg is not None and msg == o["dial_msg"].encode():
                d = msg
            else:
                v = msg if msg is not None else (b"" if o["exit"] != 0 else None)
        elif o["connections"] == 0:
            v = msg if msg is not None else (b"" if o["exit"] != 0 else None)   # refused before the socket was touched
        else:
            e = o.get("rpc_error")
            # e is None: the command left before a complete answer of the proxy had come back through the relay - the proxy has
            # reported no error to it (exit rule: such a command must not exit non-zero; "exactly when the proxy reports an error")
            r = e.encode("utf-8") if e else None
        out = ["CaseExit %s %s %s %d%%N %s" % (opt_lit(v, sb), opt_lit(d, sb), opt_lit(r, sb),
                                              o["exit"] if o["exit"] >= 0 else 255, sb(err))]
        if "deploy" in o:
            refused = None
            if o["connections"] == 0 and msg is not None:
                for name, m in PRE_MSG.items():
                    if msg == m.encode():
                        refused = name
            fwd = o.get("stored_fwd") if (o["exit"] == 0) else None
            out.append("CaseDeploy %s (mkDeployObs %s %s %s)" % (
                di_lit(o["deploy"]), opt_lit(refused, lambda x: x), bool_lit(o["connections"] > 0), opt_lit(fwd, bool_lit)))
        return out
    if k == "list":
        svcs = list_lit(["(deployed_service %s %s %s %s)" % (sb(s["name"]), di_lit(s["deploy"]),
                                                           list_lit([sb(t) for t in s["targets"]]), sb(s["state"]))
                         for s in c["services"]])
        return ["CaseList %s %s" % (svcs, sb(bytes.fromhex(c["stdout"])))]
    raise ValueError(k)


# ----------------------------------------------------------------- run ----

def run(tier, seed):
    res = Result("C20", tier, seed)
    work = Work("C20")
    rnd = random.Random(seed)
    harness_notes = []
    try:
        timing = {}
        t0 = time.time()
        ok, blog = coq_build(["props/C20.vo", "corr/C20corr.vo"])
        timing["coq_build_incl_lock_wait"] = round(time.time() - t0, 1)
        t0 = time.time()
        proofs_ok, pa = proof_obligations(work, res, "C20.v", ok, blog)
        timing["props_recheck"] = round(time.time() - t0, 1)
        t0 = time.time()
        binary, build_log = build_binary(work)
        timing["go_build"] = round(time.time() - t0, 1)
        t0 = time.time()
        cases, obs = [], []
        harness_ok = binary is not None
        if not harness_ok:
            harness_notes.append("go build ./cmd/kamal-proxy failed:\n" + build_log[-2000:])
        env_out = ""
        if harness_ok:
            # (e) first: it compiles while nothing else runs
            env_cases = gen_env_cases(rnd, tier)
            run_cases = gen_run_cases(rnd, tier)
            dep_cases = gen_deploy_cases(rnd, tier)
            write_jsonl(work.path("env.jsonl"), [{"key": ENV_KEY.hex(), "pref": c["pref"], "bare": c["bare"],
                                                  "def_int": str(c["def_int"]), "def_bool": c["def_bool"]} for c in env_cases])
            env_result = {}

            def do_env():
                rc, out = go_test(work, ["cmd_c20_test.go"], "^TestVerifC20Env$",
                                  {"VERIF_IN": work.path("env.jsonl"), "VERIF_OUT": work.path("env-obs.jsonl")},
                                  pkgdir="internal/cmd")
                env_result["rc"], env_result["out"] = rc, out

            t_env = threading.Thread(target=do_env)
            t_env.start()

            home = work.path("home")
            nosock = work.path("nosock")
            os.makedirs(home, exist_ok=True)
            os.makedirs(nosock, exist_ok=True)

            # (c) and (d) on two proxies, in the background of the matrices
            sess_cmd = Session(binary, work.path("s-cmd"))
            sess_list = Session(binary, work.path("s-list"))
            sess_err = {}
            list_cases = []

            def do_cmd():
                try:
                    if not sess_cmd.start():
                        sess_err["cmd"] = "proxy did not start: " + sess_cmd_stderr(sess_cmd)
                        return
                    scenario_commands(sess_cmd)
                except Exception as e:          # noqa: BLE001 — reported as a harness failure
                    sess_err["cmd"] = repr(e)
                finally:
                    sess_cmd.close()

            def do_list():
                try:
                    if not sess_list.start():
                        sess_err["list"] = "proxy did not start"
                        return
                    list_cases.extend(scenario_list(sess_list, random.Random(seed + 1), tier))
                except Exception as e:          # noqa: BLE001
                    sess_err["list"] = repr(e)
                finally:
                    sess_list.close()

            t_cmd = threading.Thread(target=do_cmd)
            t_list = threading.Thread(target=do_list)
            t_cmd.start()
            t_list.start()

            with ThreadPoolExecutor(max_workers=12) as ex:
                run_obs = list(ex.map(lambda ic: exec_run_case(binary, work.path("run-%d" % ic[0]), ic[1]),
                                      enumerate(run_cases)))
                dep_obs = list(ex.map(lambda c: exec_deploy_case(binary, home, nosock, c), dep_cases))
            t_cmd.join()
            t_list.join()
            t_env.join()
            env_out = env_result.get("out", "")
            if env_result.get("rc") != 0 or not os.path.exists(work.path("env-obs.jsonl")):
                harness_ok = False
                harness_notes.append("overlay test TestVerifC20Env failed:\n" + env_out[-2000:])
                env_obs = []
            else:
                env_obs = read_jsonl(work.path("env-obs.jsonl"))
                if len(env_obs) != len(env_cases):
                    harness_ok = False
                    harness_notes.append("overlay test returned %d results for %d cases" % (len(env_obs), len(env_cases)))
                    env_obs = []
            if sess_err:
                harness_ok = False
                harness_notes.append("client-command sessions: %r" % sess_err)
            cases += run_cases
            obs += run_obs
            cases += dep_cases
            obs += dep_obs
            if env_obs:
                cases += env_cases
                obs += env_obs
            for st in sess_cmd.steps + sess_list.steps:
                cases.append({"kind": "exit", "argv": st["argv"], "expect": st["expect"], "socket": st["socket"],
                              **({"note": st["note"]} if "note" in st else {})})
                obs.append(st)
            for lc in list_cases:
                cases.append(lc)
                obs.append({"stdout": lc["stdout"], "exit": lc["exit"]})

        # ---- coverage guards: the scenarios must have produced what they are for
        unreadable = []
        terms, owner = [], []
        for j, (c, o) in enumerate(zip(cases, obs)):
            try:
                ts = terms_of(c, o)
            except Exception as e:              # noqa: BLE001
                ts = None
                harness_notes.append("case %d: %r" % (j, e))
            if ts is None:
                unreadable.append(j)
                continue
            for t in ts:
                terms.append(t)
                owner.append(j)
        if unreadable:
            harness_ok = False
            harness_notes.append("observation unreadable for %d case(s), first: %s / %s" % (
                len(unreadable), json.dumps(cases[unreadable[0]])[:600], json.dumps(obs[unreadable[0]])[:900]))
        by_cmd = {}
        for c, o in zip(cases, obs):
            if c["kind"] == "exit" and c["socket"] and o.get("connections", 0) > 0:
                a = c["argv"]
                name = " ".join(a[:2]) if a[0] == "rollout" else ("list" if a[0] == "ls" else a[0])
                by_cmd.setdefault(name, set()).add("rpc-error" if o.get("rpc_error") else "rpc-ok")
        mismatches = []
        for c, o in zip(cases, obs):
            if c["kind"] == "exit":
                actual = ("dial" if not o["socket"] and o["exit"] != 0 and b"dial unix" in bytes.fromhex(o["stderr"]) else
                          "validation" if o.get("connections", 0) == 0 and o["exit"] != 0 else
                          "rpc" if o.get("rpc_error") else "ok" if o["exit"] == 0 else "?")
                if actual == "?" and o.get("rpc_error") is None:
                    continue        # exit non-zero without an error from the proxy: the exit-rule monitor's business, not a scenario mismatch
                if actual != c["expect"]:
                    mismatches.append({"argv": c["argv"], "expected": c["expect"], "got": actual,
                                       "stderr": bytes.fromhex(o["stderr"]).decode("utf-8", "replace")[:200]})
        if mismatches:
            harness_ok = False
            harness_notes.append("scenario steps did not meet the outcome they were written for: " + json.dumps(mismatches)[:1500])
        wanted = ["deploy", "remove", "pause", "stop", "resume", "rollout deploy", "rollout set", "rollout stop"]
        if harness_ok:
            missing = [w for w in wanted if by_cmd.get(w) != {"rpc-error", "rpc-ok"}]
            if "rpc-ok" not in by_cmd.get("list", set()):
                missing.append("list")
            if missing:
                harness_ok = False
                harness_notes.append("scenario did not reach both a proxy-side success and a proxy-side error for: %s (%r)"
                                     % (", ".join(missing), {k: sorted(v) for k, v in by_cmd.items()}))

        timing["binary_and_overlay_runs"] = round(time.time() - t0, 1)
        t0 = time.time()
        failing = []
        if ok and terms:
            shard = 300
            jobs = [(s, terms[s:s + shard]) for s in range(0, len(terms), shard)]

            def ev(job):
                s, ts = job
                body = "Definition cases : list c20_case := %s.\nDefinition R := Eval vm_compute in failures cases.\n" % (
                    "[\n" + ";\n".join(ts) + "]")
                txt = coq_eval(work, "Cases_%d" % s, "From KP Require Import model.Base model.Cli corr.C20corr.", body, "R")
                return s, txt
            with ThreadPoolExecutor(max_workers=16) as ex:
                for s, txt in ex.map(ev, jobs):
                    for (j, a, m) in parse_failures(txt):
                        failing.append((owner[s + j], a, m, terms[s + j].split()[0]))

        timing["coq_case_evaluation"] = round(time.time() - t0, 1)
        res.coverage["timing_s"] = timing
        kinds, outcomes = {}, {}
        for c, o in zip(cases, obs):
            k = c["kind"]
            if k == "run":
                kk = "run/%s flag=%s pref=%s bare=%s" % (c["opt"], c["flag"], c["pref"], c["bare"])
                kinds["run/" + c["opt"]] = kinds.get("run/" + c["opt"], 0) + 1
                ok_ = "run value=%s" % ("default" if run_case_value(c, o) in (80, 443, False) else "non-default")
            elif k == "deploy":
                kinds["deploy-validation"] = kinds.get("deploy-validation", 0) + 1
                ok_ = "deploy " + (o["refused"] or ("dialed" if o["dialed"] else "other"))
            elif k == "env":
                kinds["env-value"] = kinds.get("env-value", 0) + 1
                ok_ = "env int=%s bool=%s" % ("default" if int(o["int"]) == c["def_int"] else "parsed",
                                              "default" if o["bool"] == c["def_bool"] else "parsed")
            elif k == "exit":
                kinds["client-command"] = kinds.get("client-command", 0) + 1
                ok_ = "command exit=%s %s" % (o["exit"], "no-socket" if not o["socket"] else
                                              ("not-dialled" if o["connections"] == 0 else
                                               ("rpc-error" if o.get("rpc_error") else "rpc-ok")))
            else:
                kinds["list"] = kinds.get("list", 0) + 1
                ok_ = "list services=%d" % len(c["services"])
            outcomes[ok_] = outcomes.get(ok_, 0) + 1
        distinct = len({json.dumps({k: v for k, v in c.items() if k not in ("argv", "env", "stdout")}, sort_keys=True)
                        + json.dumps(c.get("argv") if c["kind"] in ("exit", "deploy") else None) for c in cases})

        def sample(kind):
            for c, o in zip(cases, obs):
                if c["kind"] == kind:
                    oo = {k: v for k, v in o.items() if k in ("exit", "refused", "dialed", "http", "https", "debug", "int",
                                                              "bool", "connections", "rpc_error", "listening")}
                    cc = {k: v for k, v in c.items() if k not in ("stdout",)}
                    return {"case": cc, "observed": oo}
            return None
        res.coverage.update({
            "evaluations": len(cases), "distinct_nontrivial": distinct, "coq_case_terms": len(terms),
            "rule": "run: every flag x prefixed x bare source combination per option on the built binary (ports from the "
                    "child's LISTEN sockets, debug from its log); deploy: exhaustive boolean core (128) + all host x prefix "
                    "variants + all ways of giving limits/buffer flags + %s of the full variant product, no proxy running; "
                    "client commands: a fixed script reaching a proxy-side success and error for every command, argument "
                    "errors and a missing socket, outcome read from the net/rpc response on a relay; list: byte comparison "
                    "after successive deploys; env: %d value strings through getEnvInt/getEnvBool.  A case is distinct by "
                    "its JSON (argv included)" % ("a random sample" if tier == "quick" else "all", len([c for c in cases if c["kind"] == "env"])),
            "exhaustive": False,
            "input_distribution": kinds, "outcome_distribution": outcomes,
            "client_command_outcomes": {k: sorted(v) for k, v in by_cmd.items()},
            "samples": [s for s in (sample("run"), sample("deploy"), sample("exit"), sample("env"), sample("list")) if s],
            "correspondence": {"cases": len(cases), "disagreements": len([f for f in failing if not f[1]]),
                               "monitor_failures": len([f for f in failing if not f[2]])},
        })
        res.assumptions = [
            "model/Cli.v is hand-written; tied to internal/cmd only by this correspondence run on the built binary",
            "cobra/pflag (flag parsing, Changed, required flags), net/rpc and the proxy's own decisions are not modelled: "
            "the proxy-side outcome of a command is observed on the wire, not predicted",
            "strconv.Atoi / ParseBool are modelled (atoi, parse_bool) and compared with the Go functions on generated strings",
            "the parsed form of --host / --path-prefix values (pflag's CSV reading) is supplied by the harness per variant",
        ]
        if harness_notes:
            res.notes.extend(n[:1500] for n in harness_notes)
        mon_fail = [f for f in failing if not f[2]]
        disagree = [f for f in failing if f[2] and not f[1]]
        if mon_fail:
            j = mon_fail[0][0]
            payload = {"property": "C20", "what": "monitor false on an observation of the built binary (%s)" % mon_fail[0][3],
                       "case": cases[j], "observed": obs[j], "seed": seed, "tier": tier,
                       "replay": replay_hint(cases[j]), "other_failing_cases": len(mon_fail) - 1}
            res.violation("monitor-%d" % j, payload)
        elif disagree or not harness_ok or not proofs_ok:
            what = ("model and implementation disagree" if disagree else
                    "harness does not build/run against the tree" if not harness_ok else "proof obligations of props/C20.v do not check")
            payload = {"property": "C20", "what": what, "seed": seed, "tier": tier,
                       "broken": "corr.C20corr.check_case (model/Cli.v vs internal/cmd)" if disagree or not harness_ok else "props/C20.v"}
            if disagree:
                j = disagree[0][0]
                payload.update({"case": cases[j], "observed": obs[j], "replay": replay_hint(cases[j])})
            if not harness_ok:
                payload["harness_output"] = harness_notes
            if not proofs_ok:
                payload["coq_output"] = (blog + pa)[-3000:]
            res.violation("broken", payload, no_input=True)
        return res.finish()
    finally:
        kill_all()
        work.cleanup()


def sess_cmd_stderr(s):
    return s.proxy.stderr().decode("utf-8", "replace")[-500:] if s.proxy else "no free ports / start failed"


def replay_hint(c):
    if "argv" in c:
        env = " ".join("%s=%r" % kv for kv in sorted(c.get("env", {}).items()))
        return ("HOME=<scratch> XDG_RUNTIME_DIR=<scratch> %s kamal-proxy %s" % (env, " ".join(
            a if a and all(ch.isalnum() or ch in "-_./:=," for ch in a) else repr(a) for a in c["argv"]))).replace("  ", " ")
    if c["kind"] == "env":
        return "getEnvInt/getEnvBool(%r) with KAMAL_PROXY_%s=%r %s=%r" % (
            ENV_KEY.decode(), ENV_KEY.decode(), None if c["pref"] is None else bytes.fromhex(c["pref"]),
            ENV_KEY.decode(), None if c["bare"] is None else bytes.fromhex(c["bare"]))
    if c["kind"] == "list":
        return "against one running proxy (targets answering 200 on /up): " + " ; ".join(
            "kamal-proxy " + " ".join(a) for a in c.get("commands", []))
    return ""
