"""C01 — traffic moves to new targets only after all of them pass a health probe.

Proof obligations of props/C01.v (theorems about every trace accepted by the
load-balancer acceptor model/M5lb.v); correspondence: deploy scenarios on the
real Router/Service/LoadBalancer/Target code under the virtual clock — 1-4
targets per deploy, per-target probe scripts (refused / non-2xx / slower than
the probe timeout / success after k failures / success at or 1 ns around the
deploy deadline), client requests before, during the wait, at the
deploy:healthy / deploy:slot-updated yields and after; failed deploys of new and
of existing services — every recorded trace must be accepted by the model, and
the monitors corr/C01corr.c01_ok / c01_deadline_ok are evaluated on it."""
import random

import m4x
import m5
import m5lb
from vlib import *

SEC, MS = m5.SEC, m5.MS
H = m5.H
INTERVAL = SEC
OK_OUTCOMES = ["ok", "ok", "status:200", "status:204", "status:299"]
FAIL_OUTCOMES = ["refused", "status:503", "status:500", "status:302", "status:300", "status:404", "status:199"]


class Builder:
    def __init__(self, rnd):
        self.rnd = rnd
        self.steps = []
        self.ncmd = self.nreq = self.ntgt = 0
        self.meta = {"deploys": [], "requests": {}, "strict": True, "shape": []}
        self.armed = []

    def names(self, n):
        out = []
        for _ in range(n):
            out.append(("n%d:80" % self.ntgt).encode())
            self.ntgt += 1
        return out

    def cmd(self):
        self.ncmd += 1
        return "c%d" % self.ncmd

    def deploy(self, name, host, scripts, dt, ptimeout, async_=True, rollout=False, drain=SEC, names=None, health_path=None):
        names = names or self.names(len(scripts))
        st = {"op": "rollout_deploy" if rollout else "deploy", "id": self.cmd(), "async": async_, "name": H(name),
              "targets": [{"name": H(n), "probes": s} for n, s in zip(names, scripts)],
              "deploy_timeout": dt, "drain_timeout": drain}
        if not rollout:
            st.update({"hosts": [H(host)], "prefixes": [], "tls": False, "tls_redirect": False, "strip": True, "cert": "none",
                       "pages": "none", "topts": {"interval": INTERVAL, "timeout": ptimeout}})
            if health_path is not None:
                st["topts"]["health_path"] = H(health_path)
        self.steps.append(st)
        self.meta["deploys"].append({"id": st["id"], "targets": [n.decode() for n in names], "scripts": scripts, "dt": dt,
                                     "ptimeout": ptimeout, "rollout": rollout, "name": name.decode()})
        return st["id"]

    def request(self, host, tag, cookie=None, beh="reply"):
        self.nreq += 1
        rid = "r%d" % self.nreq
        hdrs = [[H(b"Cookie"), H(b"kamal-rollout=" + cookie)]] if cookie else []
        self.steps.append({"op": "request", "id": rid, "async": True, "host": H(host), "uri": H(b"/x"), "behaviour": beh,
                           "headers": hdrs, "method": "GET"})
        self.meta["requests"][rid] = tag
        return rid

    def sleep(self, ns):
        if ns > 0:
            self.steps.append({"op": "sleep", "ns": ns})
        else:
            self.steps.append({"op": "settle"})

    def arm(self, point, n=1):
        self.steps.append({"op": "arm", "point": point, "n": n})
        self.armed.append(point)
        if point == "probe:applied":
            self.meta["strict"] = False

    def release(self, point):
        self.steps.append({"op": "release", "point": point, "who": ""})

    def finish(self):
        for _ in range(2):
            for p in m5lb.LB_POINTS:
                self.release(p)
        self.sleep(1500 * MS)
        self.steps.append({"op": "observe", "id": "final"})
        return {"steps": self.steps}, self.meta


def script(rnd, kind, ptimeout, dt):
    """Probe outcomes of one target (the last one repeats)."""
    if kind == "ok":
        return [rnd.choice(OK_OUTCOMES)]
    if kind == "late":        # success after k failures
        k = rnd.randint(1, 3)
        return [rnd.choice(FAIL_OUTCOMES) for _ in range(k)] + [rnd.choice(OK_OUTCOMES)]
    if kind == "slowok":      # slow, but within the probe timeout
        d = rnd.choice([ptimeout - 1, ptimeout // 2, 100 * MS])
        return ["slow:%d" % d, "ok"]
    if kind == "slowfail":    # slower than the probe timeout (by 1 ns, or much), then fine
        d = rnd.choice([ptimeout + 1, ptimeout + 1, 2 * ptimeout, ptimeout])
        return ["slow:%d" % d, rnd.choice(["ok", "slow:%d" % (ptimeout + 1)])]
    if kind == "slowstatus":  # in time but not 2xx
        return ["slow:%d:503" % (ptimeout // 2), rnd.choice(["ok", "status:503"])]
    if kind == "never":
        return [rnd.choice(["refused", "status:500", "hang", "status:302", "slow:%d" % (ptimeout + 1), "status:199"])]
    if kind == "flap":        # healthy, then failing again while the others are still awaited
        return ["ok", rnd.choice(FAIL_OUTCOMES), rnd.choice(["ok", "refused"]), "ok"]
    raise ValueError(kind)


def edge_script(rnd, ptimeout, delta):
    """k refusals (on the ticks) then an answer after x: first success at k*interval + x = deadline + delta."""
    k = rnd.randint(0, 2)
    x = rnd.choice([200 * MS, 300 * MS, 450 * MS])
    if x >= ptimeout:
        x = ptimeout // 2
    dt = k * INTERVAL + x - delta
    return ["refused"] * k + ["slow:%d" % x, "ok"], dt


def gen_scenario(rnd, shape):
    b = Builder(rnd)
    b.meta["shape"] = shape
    host = rnd.choice([b"a.example.com", b"b.example.com"])
    name = rnd.choice([b"web", b"api"])
    ptimeout = rnd.choice([500 * MS, 500 * MS, 2 * SEC, 5 * SEC])
    existing = shape["existing"]
    if existing:
        b.deploy(name, host, [["ok"] for _ in range(rnd.choice([1, 2]))], 5 * SEC, ptimeout, async_=False)
        for _ in range(rnd.randint(1, 3)):
            b.request(host, "old")
        b.sleep(0)
    rollout = existing and shape["rollout"]
    n = shape["n"]
    # also deploy timeouts well above 5 s (the default is 30 s): anything periodic inside the wait gets a chance to show
    dt = rnd.choice([2 * SEC, 3 * SEC, 3 * SEC + 500 * MS, 5 * SEC + 500 * MS, 7 * SEC, 12 * SEC + 500 * MS])
    mix = shape["mix"]
    if mix == "all_ok":
        kinds = [rnd.choice(["ok", "ok", "late", "slowok"]) for _ in range(n)]
    elif mix == "all_late":
        kinds = [rnd.choice(["late", "slowok", "slowfail", "slowstatus"]) for _ in range(n)]
    elif mix == "one_never":
        kinds = [rnd.choice(["ok", "late", "slowok"]) for _ in range(n)]
        kinds[rnd.randrange(n)] = "never"
    elif mix == "none":
        kinds = ["never"] * n
    elif mix == "flap":
        kinds = [rnd.choice(["ok", "late"]) for _ in range(n)]
        kinds[0] = "flap"
        if n > 1:
            kinds[-1] = "late"
    else:                       # "edge": one target becomes healthy at the deadline -1 / 0 / +1 ns
        kinds = [rnd.choice(["ok", "late"]) for _ in range(n)]
    scripts = [script(rnd, k, ptimeout, dt) for k in kinds]
    if mix == "edge":
        es, dt = edge_script(rnd, ptimeout, shape["delta"])
        scripts[rnd.randrange(n)] = es
        scripts = [s if s is es else [rnd.choice(OK_OUTCOMES)] for s in scripts]
    for p in shape["arms"]:
        b.arm(p, 2 if p == "probe:applied" else 1)
    cookie = b"alice" if rollout else None
    b.request(host, "before", cookie)
    b.deploy(name, host, scripts, dt, ptimeout, rollout=rollout)
    if rollout:
        b.steps.append({"op": "rollout_set", "id": b.cmd(), "async": True, "name": H(name), "pct": rnd.choice([0, 100]),
                        "allow": [H(b"alice")]})
    # requests while the command waits
    t = 0
    marks = sorted(set(rnd.sample([0, 1, 300 * MS, 1 * SEC, 1 * SEC + 1, 1500 * MS, 2 * SEC, dt - 1, dt, dt + 1, dt + 200 * MS],
                                  rnd.randint(3, 6))))
    for mk in marks:
        if mk > t:
            b.sleep(mk - t)
            t = mk
        for _ in range(rnd.choice([1, 1, 2])):
            b.request(host, "during" if mk < dt else "around-deadline" if mk <= dt + 1 else "after-wait", cookie)
    if t < dt + 1:
        b.sleep(dt + 1 - t)
    if "probe:applied" in shape["arms"]:
        b.release("probe:applied")
        b.release("probe:applied")
        b.sleep(0)
    for p in ["deploy:healthy", "deploy:slot-updated", "deploy:installed"]:
        if p in shape["arms"]:
            for _ in range(rnd.choice([1, 2])):
                b.request(host, "at-" + p, cookie)
            b.sleep(0)
            b.release(p)
            b.sleep(0)
    if rollout:
        b.steps.append({"op": "rollout_set", "id": b.cmd(), "async": True, "name": H(name), "pct": 100, "allow": []})
    b.sleep(rnd.choice([100 * MS, 1 * SEC, 1200 * MS]))
    for _ in range(rnd.randint(2, 4)):
        b.request(host, "after", cookie)
    if shape["again"]:          # a second deploy of the same service afterwards (redeploy after success or failure)
        b.sleep(0)
        ok2 = rnd.random() < 0.6
        b.deploy(name, host, [script(rnd, "ok" if ok2 else "never", ptimeout, dt) for _ in range(rnd.choice([1, 2]))],
                 2 * SEC, ptimeout, async_=True)
        b.sleep(rnd.choice([500 * MS, 2 * SEC + 1]))
        b.request(host, "after2")
        b.sleep(2 * SEC)
        b.request(host, "after2")
    return b.finish()


def gen_same_names(rnd):
    """The service is redeployed with the SAME target names (same host:port, new Target objects): the new objects must be
    probed afresh, whatever the health of the objects they replace - healthy old / failing new, and the reverse."""
    b = Builder(rnd)
    b.meta["shape"] = {"mix": "same_names"}
    host, name = b"a.example.com", b"web"
    ptimeout = rnd.choice([500 * MS, 2 * SEC])
    n = rnd.choice([1, 2])
    b.deploy(name, host, [["ok"] for _ in range(n)], 5 * SEC, ptimeout, async_=False)
    names = [t.encode() for t in b.meta["deploys"][-1]["targets"]]
    b.request(host, "old")
    b.sleep(0)
    first_bad = rnd.random() < 0.5
    if first_bad:               # the deployed targets turn unhealthy, then the same names are redeployed and keep failing
        b.steps.append({"op": "probe_script", "targets": [{"name": H(x), "probes": [rnd.choice(["refused", "status:500"])]} for x in names]})
        b.sleep(2 * SEC + 100 * MS)
    scripts = [[rnd.choice(["refused", "status:503", "status:302"])] for _ in names]
    if not first_bad and n == 2 and rnd.random() < 0.5:
        scripts[0] = ["ok"]
    dt = rnd.choice([2 * SEC, 3 * SEC])
    b.deploy(name, host, scripts, dt, ptimeout, names=names)
    for mk in [1, 500 * MS, 1 * SEC, dt - 1 - 1500 * MS - 1, 2]:
        b.sleep(max(mk, 0))
        b.request(host, "during")
    b.sleep(1 * SEC)
    for _ in range(3):
        b.request(host, "after-wait")
    b.sleep(1 * SEC)
    # finally the same names once more, now answering: the deploy succeeds after fresh probes
    b.deploy(name, host, [["status:503", "ok"] for _ in names], 3 * SEC, ptimeout, names=names)
    b.sleep(500 * MS)
    b.request(host, "during")
    b.sleep(1 * SEC)
    b.request(host, "after")
    b.sleep(1 * SEC)
    b.request(host, "after")
    return b.finish()


def gen_health_paths(k):
    """Health-check paths that are not a plain absolute path: whatever the configured path looks like (a second host after
    '//', a full URL, dot segments, a query), the probe that decides about a target must be sent to THAT target - two targets,
    the first answers its probes and the second never does, the path names the first one: the deploy must fail and nothing
    may be forwarded to the new targets; then the same with both answering."""
    b = Builder(random.Random(9000 + k))
    b.meta["shape"] = {"mix": "health_path", "k": k}
    host, name = b"a.example.com", b"web"
    names = b.names(2)
    good = names[0]
    path = [b"//" + good + b"/up", b"http://" + good + b"/up", b"/a/../up", b"/up?full=1", b"up", b"///" + good + b"/up"][k % 6]
    b.deploy(name, host, [["ok"], ["ok"]], 5 * SEC, 500 * MS, async_=False)
    b.request(host, "old")
    b.sleep(0)
    b.deploy(name, host, [["ok"], ["refused"]], 2 * SEC, 500 * MS, names=names, health_path=path)
    for mk in [1, 1 * SEC, 900 * MS, 200 * MS]:
        b.sleep(mk)
        b.request(host, "during")
        b.request(host, "during")
    b.sleep(1 * SEC)
    b.deploy(name, host, [["status:503", "ok"], ["ok"]], 3 * SEC, 500 * MS, health_path=path)
    b.sleep(1500 * MS)
    for _ in range(3):
        b.request(host, "after")
    return b.finish()


def gen_zero_timeout(k):
    """A deploy timeout of zero (or 1 ns): the wait is over at once - a target that is not healthy at that very instant fails the
    deploy, however soon it would have answered; the old targets keep serving."""
    b = Builder(random.Random(9200 + k))
    b.meta["shape"] = {"mix": "zero_timeout", "k": k}
    host, name = b"a.example.com", b"web"
    b.deploy(name, host, [["ok"]], 5 * SEC, 500 * MS, async_=False)
    b.request(host, "old")
    b.sleep(0)
    if k % 2 == 1:
        b.deploy(name, host, [["ok"]], 5 * SEC, 500 * MS, async_=False, rollout=True)
    scripts = [[["refused", "refused", "refused", "ok"]], [["status:503", "ok"], ["ok"]], [["slow:%d:200" % (300 * MS)]]][k % 3]
    b.deploy(name, host, scripts, [0, 1][(k // 3) % 2], 500 * MS, rollout=k % 2 == 1)
    for mk in [1, 500 * MS, 1 * SEC, 2 * SEC, 1 * SEC]:
        b.sleep(mk)
        b.request(host, "after-wait")
    return b.finish()


def gen_slow_log(k):
    """The log sink is slow and the level is Debug: every log call of the proxy takes a moment during which other goroutines
    run. A redeploy one of whose targets never answers must still fail and leave the old targets serving, however the log
    calls of the waiting goroutines interleave with the deploy; one whose targets all answer (late) must still succeed."""
    b = Builder(random.Random(9100 + k))
    b.meta["shape"] = {"mix": "slow_log", "k": k}
    host, name = b"a.example.com", b"web"
    b.deploy(name, host, [["ok"]], 5 * SEC, 500 * MS, async_=False)
    b.request(host, "old")
    b.sleep(0)
    n = 1 + k % 3
    scripts = [["status:503", "ok"] for _ in range(n)]
    bad = k % 2 == 0
    if bad:
        scripts[k % n] = [["refused"], ["status:500"], ["hang"]][k % 3]
    dt = [2 * SEC, 2500 * MS][k % 2]
    b.deploy(name, host, scripts, dt, 500 * MS)
    for mk in [1, 1 * SEC, 900 * MS, 700 * MS, 300 * MS]:
        b.sleep(mk)
        b.request(host, "during")
    b.sleep(1 * SEC)
    for _ in range(3):
        b.request(host, "after")
    sc, meta = b.finish()
    sc["slow_log_ns"] = [1, 1000, 1000000][k % 3]
    meta["strict"] = False        # the time the log calls take is added to the waits: only the weak deadline rule applies
    return sc, meta


def gen_rollout_redeploy(rnd):
    """A SECOND rollout deploy while a split is in force and rollout-group requests keep arriving: until all of its targets
    have answered a probe the rollout group must stay on the rollout targets it had (and for ever, if the command fails)."""
    b = Builder(rnd)
    b.meta["shape"] = {"mix": "rollout_redeploy"}
    host, name = b"a.example.com", b"web"
    ptimeout = rnd.choice([500 * MS, 2 * SEC])
    b.deploy(name, host, [["ok"]], 5 * SEC, ptimeout, async_=False)
    b.deploy(name, host, [["ok"] for _ in range(rnd.choice([1, 2]))], 5 * SEC, ptimeout, async_=False, rollout=True)
    b.steps.append({"op": "rollout_set", "id": b.cmd(), "async": False, "name": H(name), "pct": rnd.choice([0, 100]), "allow": [H(b"alice")]})
    b.request(host, "before", b"alice")
    b.request(host, "before")
    b.sleep(0)
    dt = rnd.choice([2 * SEC, 3 * SEC])
    fails = rnd.random() < 0.6
    n = rnd.choice([2, 2, 3])
    kinds = [rnd.choice(["ok", "late", "slowok"]) for _ in range(n)]
    kinds[0] = "ok"                                  # one new target is healthy at once ...
    kinds[-1] = "never" if fails else "late"         # ... another one late or never
    b.deploy(name, host, [script(rnd, k, ptimeout, dt) for k in kinds], dt, ptimeout, rollout=True)
    t = 0
    for mk in sorted(set(rnd.sample([1, 200 * MS, 700 * MS, 1 * SEC + 1, 1500 * MS, dt - 1, dt, dt + 1, dt + 300 * MS], 5))):
        b.sleep(mk - t)
        t = mk
        b.request(host, "during" if mk < dt else "after-wait", b"alice")
        if rnd.random() < 0.4:
            b.request(host, "during" if mk < dt else "after-wait")
    b.sleep(1 * SEC)
    for _ in range(3):
        b.request(host, "after", b"alice")
    return b.finish()


def gen_shapes(rnd, n):
    shapes = []
    mixes = ["all_ok", "all_late", "one_never", "none", "edge", "edge", "flap", "one_never"]
    for i in range(n):
        mix = mixes[i % len(mixes)]
        arms = []
        if rnd.random() < 0.55:
            arms.append("deploy:healthy")
        if rnd.random() < 0.35:
            arms.append("deploy:slot-updated")
        if rnd.random() < 0.2:
            arms.append("deploy:installed")
        if rnd.random() < 0.2:
            arms.append("probe:applied")
        shapes.append({"mix": mix, "n": 1 + (i // len(mixes)) % 4 if mix != "one_never" else 2 + (i // len(mixes)) % 3,
                       "existing": rnd.random() < 0.6, "rollout": rnd.random() < 0.3, "arms": arms,
                       "delta": [-1, 0, 1][(i // 2) % 3], "again": rnd.random() < 0.3})
    return shapes


# ------------------------------------------------------------ judging ----

def outcome_ok(outcome, ptimeout):
    """Expected probe verdict for a scripted outcome: True / False / None (either, at the exact timeout)."""
    if outcome == "ok":
        return True
    if outcome in ("refused", "hang"):
        return False
    if outcome.startswith("status:"):
        return 200 <= int(outcome.split(":")[1]) <= 299
    if outcome.startswith("slow:"):
        parts = outcome.split(":")
        d = int(parts[1])
        st = int(parts[2]) if len(parts) > 2 else 200
        if d == ptimeout:
            return None if 200 <= st <= 299 else False
        return d < ptimeout and 200 <= st <= 299
    return None


def probe_verdicts(o, ptimeouts):
    """Every applied probe result must be what the scripted outcome of the matching probe-sent
    says: success only for a 2xx answer within the probe timeout.  Returns mismatches."""
    last = {}
    bad = []
    for e in o["events"]:
        if e["kind"] == "probe-sent":
            last[e["args"][0]] = (e["args"][1], e["t"])
        elif e["kind"] == "probe-apply":
            host = e["args"][0].split(":", 1)[1]
            if host in last and host in ptimeouts:
                want = outcome_ok(last[host][0], ptimeouts[host])
                if want is not None and want != e["args"][1]:
                    bad.append({"seq": e["seq"], "target": host, "outcome": last[host][0], "applied_ok": e["args"][1]})
    return bad


def failed_deploy_leaks(o):
    """After a deploy whose wait failed has returned, none of its targets gets another probe result
    (a result that was already in flight may still be applied at the very instant of the return)."""
    lbs, failed, ret, bad = {}, {}, {}, []
    for e in o["events"]:
        if e["kind"] == "lb-new":
            lbs[e["args"][0]] = e["args"][1]
        elif e["kind"] == "deploy-waited" and not e["args"][1]:
            failed[e["g"]] = e["args"][0]
        elif e["kind"] == "return" and e["g"] in failed:
            ret[failed[e["g"]]] = e["t"]
        elif e["kind"] == "probe-apply":
            for lb, t_ret in ret.items():
                if e["args"][0] in lbs.get(lb, []) and e["t"] > t_ret:
                    bad.append({"seq": e["seq"], "t": e["t"], "target": e["args"][0], "lb": lb})
    return bad


def served_by_claimed(o):
    """The target that served a request (response header set by the scripted target) is the one that claimed it."""
    claim = {}
    bad = []
    for e in o["events"]:
        if e["kind"] == "claim":
            claim[e["args"][1]] = e["args"][0].split(":", 1)[1]
    for r in o["results"]:
        if r.get("op") == "request" and r.get("served_by"):
            if claim.get(r["id"]) != r["served_by"]:
                bad.append({"request": r["id"], "served_by": r["served_by"], "claimed": claim.get(r["id"])})
    return bad


def doctored(events):
    """Three doctored copies of a real trace that the acceptor must reject (None where not applicable)."""
    out = {}
    ev = [dict(e) for e in events]
    # (a) drop the successful probe result of a target that later claims a request
    claimed = {e["args"][0] for e in ev if e["kind"] == "claim"}
    idx = next((i for i, e in enumerate(ev) if e["kind"] == "probe-apply" and e["args"][1] and e["args"][2] == 0 and e["args"][0] in claimed), None)
    out["drop-probe-apply"] = ev[:idx] + ev[idx + 1:] if idx is not None else None
    # (b) swap the targets of two consecutive picks of one balancer
    cl = [i for i, e in enumerate(ev) if e["kind"] == "lb-claim" and e["args"][1] not in ("nil", None)]
    pair = next(((i, j) for i, j in zip(cl, cl[1:]) if ev[i]["args"][0] == ev[j]["args"][0] and ev[i]["args"][1] != ev[j]["args"][1]), None)
    if pair:
        sw = [dict(e, args=list(e["args"])) for e in ev]
        i, j = pair
        ti, tj = sw[i]["args"][1], sw[j]["args"][1]
        for k, (old, new) in ((i, (ti, tj)), (j, (tj, ti))):
            sw[k]["args"][1] = new
            if k + 1 < len(sw) and sw[k + 1]["kind"] in ("claim", "claim-refused") and sw[k + 1]["args"][0] == old:
                sw[k + 1]["args"][0] = new
        out["swap-claims"] = sw
    else:
        out["swap-claims"] = None
    # (c) a claim on a target outside the rotation (a target of another balancer)
    lbs = {e["args"][0]: e["args"][1] for e in ev if e["kind"] == "lb-new"}
    c = next((i for i, e in enumerate(ev) if e["kind"] == "claim"), None)
    if c is not None:
        mine = next((ts for ts in lbs.values() if ev[c]["args"][0] in ts), [])
        other = next((t for ts in lbs.values() for t in ts if t not in mine), None)
        if other:
            oc = [dict(e, args=list(e["args"])) for e in ev]
            oc[c]["args"][0] = other
            out["claim-outside-rotation"] = oc
        else:
            out["claim-outside-rotation"] = None
    else:
        out["claim-outside-rotation"] = None
    return out


PROFILES = [None, {"yields": 2.0}, {"deploys": 2.0, "rollout": 1.0, "yields": 1.5, "pause": 0.2},
            {"services": [b"web"], "hosts": [b"a.example.com"], "requests": 3.0, "yields": 2.0, "flap": 1.5}]


def run(tier, seed):
    res = Result("C01", tier, seed)
    work = Work("C01")
    try:
        ok, blog = coq_build(["props/C01.vo", "props/C01restore.vo", "props/C01probe.vo", "corr/C01corr.vo", "corr/C09corr.vo", "corr/C01probe.vo"])
        proofs_ok, pa = proof_obligations_multi(work, res, ["C01.v", "C01restore.v", "C01probe.v"], ok, blog)
        if ok:
            # the model's probe_next / next_idx proved equal to what the source says on this run (tools/gentie.py)
            import gentie
            g_ok, g_log = gentie.gen_tie(work, res)
            if not g_ok:
                proofs_ok = False
                pa += "\n" + g_log
        gate = coq_gate()
        if gate:
            proofs_ok = False
            pa += "\nforbidden constructs: " + "; ".join(gate[:10])
        rnd = random.Random(seed)
        n_directed, n_random = (72, 8) if tier == "quick" else (640, 160)
        shapes = gen_shapes(rnd, n_directed)
        scen_meta = [gen_scenario(rnd, sh) for sh in shapes]
        scen_meta += [gen_same_names(random.Random(seed * 131 + k)) for k in range(6 if tier == "quick" else 60)]
        scen_meta += [gen_rollout_redeploy(random.Random(seed * 137 + k)) for k in range(6 if tier == "quick" else 60)]
        scen_meta += [gen_health_paths(k) for k in range(6)]
        scen_meta += [gen_slow_log(k) for k in range(6 if tier == "quick" else 24)]
        scen_meta += [gen_zero_timeout(k) for k in range(6 if tier == "quick" else 12)]
        scenarios = [s for s, _ in scen_meta]
        metas = [m for _, m in scen_meta]
        rand = m5lb.random_scenarios(rnd, n_random, PROFILES, 8, 25)
        scenarios += rand
        metas += [None] * len(rand)
        def evaluate(scenarios, metas, tag, self_test):
            """Run, replay through acceptor and monitors, judge.  Returns a dict."""
            harness_ok, gout, outs = m5.run_scenarios(work, scenarios)
            rows, doct = [], {}
            if harness_ok and ok:
                expr = ("fun tr => (reject_at tr, c01_fail_at tr, c01_deadline_fail_at true tr, c01_deadline_fail_at false tr, "
                        "c01_counts tr, c01_probe_backed_fail_at tr)")
                rows = m5lb.coq_eval_traces(work, m5lb.IMPORTS.replace("corr.C01corr", "corr.C01corr corr.C01probe"), outs, expr, tag, shard=5)
                # doctored copies of one real trace must be rejected
                src = next((o for o in outs if sum(1 for e in o["events"] if e["kind"] == "claim") >= 2 and
                            any(e["kind"] == "lb-new" and len(e["args"][1]) >= 2 for e in o["events"])), None) if self_test else None
                if src is not None:
                    d = doctored(src["events"])
                    names = [k for k, v in d.items() if v is not None]
                    if names:
                        terms = [m5.trace_term(d[k]) for k in names]
                        acc = m4x.coq_map(work, m5lb.IMPORTS_MODEL, "", terms, "fun tr => accepted tr", tag + "doc", shard=3)
                        doct = dict(zip(names, acc))
            rejected, mon_fail, e2e = [], [], []
            cnts = [0, 0, 0, 0]
            for j, r in enumerate(rows):
                rej, mon, dl_strict, dl_weak, cnt, backed = r
                for q in range(4):
                    cnts[q] += cnt[q]
                strict = metas[j] is not None and metas[j]["strict"]
                dl = dl_strict if strict else dl_weak
                if mon is not None:
                    mon_fail.append((j, "c01_ok", mon[1]))
                elif dl is not None:
                    mon_fail.append((j, "c01_deadline_ok", dl[1]))
                elif backed is not None:
                    mon_fail.append((j, "c01_probe_backed_ok (corr/C01probe.v: a probe result was applied to a target without a probe sent to "
                                        "that target's own address to back it - a successful one without a probe that could succeed)", backed[1]))
                if rej is not None:
                    rejected.append((j, rej[1]))
            for j, o in enumerate(outs):
                pt = {}
                if metas[j] is not None:
                    for d in metas[j]["deploys"]:
                        for t in d["targets"]:
                            pt[t] = d["ptimeout"]
                pv = probe_verdicts(o, pt) if metas[j] is not None else []
                if pv:
                    e2e.append((j, "a probe was counted as %s although the target answered '%s'" %
                                ("success" if pv[0]["applied_ok"] else "failure", pv[0]["outcome"]), pv[:3]))
                lk = failed_deploy_leaks(o)
                if lk:
                    e2e.append((j, "a target of a failed deploy is still probed after the command returned", lk[:3]))
                sb = served_by_claimed(o)
                if sb:
                    e2e.append((j, "a request was served by a target other than the one that claimed it", sb[:3]))
            return {"harness_ok": harness_ok, "gout": gout, "outs": outs, "rows": rows, "doct": doct, "rejected": rejected,
                    "mon_fail": mon_fail, "e2e": e2e, "cnts": cnts, "scenarios": scenarios, "metas": metas}

        ev = evaluate(scenarios, metas, "C01", True)
        # a scenario whose trace is rejected or fails a monitor is run again alone before it is reported (a goroutine switch forced
        # by the runtime's monitor thread inside a lock region - CPU contention - splits the region's events and does not reproduce;
        # defects and the recorded seeded changes do): entries that do not reproduce are dropped and listed in the evidence
        not_reproduced = []
        for j in sorted({x[0] for x in ev["rejected"] + ev["mon_fail"] + ev["e2e"]})[:8]:
            ev1 = evaluate([scenarios[j]], [metas[j]], "C01re%d" % j, False)
            if ev1["harness_ok"] and ev1["rows"] and not (ev1["rejected"] or ev1["mon_fail"] or ev1["e2e"]):
                not_reproduced.append({"scenario_index": j, "first_run": [list(map(str, x)) for x in ev["rejected"] + ev["mon_fail"] if x[0] == j]})
                for key in ("rejected", "mon_fail", "e2e"):
                    ev[key] = [x for x in ev[key] if x[0] != j]
        searched = 0
        if ev["rejected"] and not ev["mon_fail"] and not ev["e2e"]:
            # the model rejects a trace but no monitor fails on it: look for a failing input among more scenarios of the same shapes
            rshapes = [metas[j]["shape"] for j, _ in ev["rejected"] if metas[j] is not None] or shapes[:8]
            rnd2 = random.Random(seed * 7919 + 1)
            sm2 = [gen_scenario(rnd2, rshapes[i % len(rshapes)]) for i in range(32 if tier == "quick" else 200)]
            ev2 = evaluate([x for x, _ in sm2], [m for _, m in sm2], "C01s", False)
            searched = len(sm2)
            if ev2["mon_fail"] or ev2["e2e"]:
                ev2["doct"] = ev["doct"]
                ev = ev2
        harness_ok, gout, outs, rows, doct = ev["harness_ok"], ev["gout"], ev["outs"], ev["rows"], ev["doct"]
        rejected, mon_fail, e2e = ev["rejected"], ev["mon_fail"], ev["e2e"]
        scenarios, metas = ev["scenarios"], ev["metas"]
        claims, waits_ok, waits_fail, lbs = ev["cnts"]
        results = {}
        status = {}
        tags = {}
        for j, o in enumerate(outs):
            for r in o["results"]:
                if r.get("op") in ("deploy", "rollout_deploy"):
                    k = "%s:%s" % (r["op"], r["result"])
                    results[k] = results.get(k, 0) + 1
                elif r.get("op") == "request":
                    status[str(r["status"])] = status.get(str(r["status"]), 0) + 1
                    if metas[j] is not None:
                        tg = metas[j]["requests"].get(r["id"], "?")
                        tags[tg] = tags.get(tg, 0) + 1
        mixes = {}
        for sh in shapes:
            k = "%s/n=%d%s%s" % (sh["mix"], sh["n"], "/existing" if sh["existing"] else "/new", "/rollout" if sh["existing"] and sh["rollout"] else "")
            mixes[k] = mixes.get(k, 0) + 1
        distinct = len({json.dumps(s, sort_keys=True) for s in scenarios})
        nontrivial = sum(1 for o in outs if any(e["kind"] == "deploy-waited" for e in o["events"]) and
                         any(e["kind"] in ("lb-claim", "routed") for e in o["events"]))
        res.coverage.update({
            "evaluations": len(outs), "distinct_nontrivial": min(distinct, nontrivial),
            "traces_validated_against_impl": len(rows) - len(rejected),
            "rule": "one evaluation = one scenario run on the real code (virtual clock) whose event trace is replayed through the "
                    "acceptor model/M5lb.v and the monitors c01_ok / c01_deadline_ok; %d directed deploy scenarios (1-4 targets, "
                    "scripted probes, requests before / during / at the yields / after) + %d random concurrent scenarios of m5.Gen; "
                    "non-trivial = contains a finished deploy wait and at least one routed request; distinct by scenario JSON"
                    % (len(shapes), len(rand)),
            "input_distribution": {"shapes": mixes, "request_placement": tags,
                                   "yields_armed": {p: sum(1 for sh in shapes if p in sh["arms"]) for p in m5lb.LB_POINTS}},
            "outcome_distribution": {"deploy_results": results, "request_status": status, "events": m5lb.n_events(outs),
                                     "claims": claims, "waits_succeeded": waits_ok, "waits_failed": waits_fail, "balancers": lbs},
            "samples": [{"scenario_steps": [{k: v for k, v in st.items() if k in ("op", "id", "ns", "point", "deploy_timeout", "targets")}
                                            for st in scenarios[0]["steps"][:14]]}] if scenarios else [],
            "correspondence": {"traces": len(rows), "rejected_by_acceptor": len(rejected), "monitor_failures": len(mon_fail),
                               "failures_not_reproduced_on_rerun": not_reproduced,
                               "end_to_end_failures": len(e2e), "doctored_traces_accepted": {k: v for k, v in doct.items()},
                               "extra_scenarios_searched_after_a_rejection": searched},
        })
        res.assumptions = [
            "model/M5lb.v is hand-written; it is tied to router.go / service.go / load_balancer.go / target.go / health_check.go only by "
            "this correspondence run: every recorded event trace must be accepted (hooks: build tag verif in /repo)",
            "traces are recorded with GOMAXPROCS(1): a lock region of the Go code is one atomic step; interleavings are explored only "
            "at blocking points and at the armed yield points",
            "probe success is decided by the scripted responder: the harness answers 2xx / other status / error / late; the check "
            "compares every applied probe verdict with that script (success only for 2xx within the probe timeout)",
            "restart (a router restored from the state file) is outside the acceptor: such traces are not generated here",
            "the timeout side (a waiter gives up exactly at creation + deploy timeout) is checked by the acceptor and the monitor "
            "c01_deadline_ok on the observed times only; the timing model proper belongs to C17",
        ]

        def payload(j, what, extra):
            p = {"property": "C01", "what": what, "seed": seed, "tier": tier, "scenario": scenarios[j],
                 "shape": metas[j]["shape"] if metas[j] else "random (m5.Gen)"}
            p.update(extra)
            return p

        def around(j, k):
            return [m5lb.event_at(outs[j], i) for i in range(max(0, k - 8), k + 1)]
        bad_doct = [k for k, v in doct.items() if v]
        if mon_fail:
            j, which, k = mon_fail[0]
            res.violation("monitor-%d" % j, payload(j, "monitor %s false on an implementation trace: a request was handed to a target "
                                                       "before every target of its deploy had a successful probe, or a failed deploy "
                                                       "was used, or the wait ended wrongly with respect to the deadline" % which,
                                                    {"monitor": which, "failing_event_index": k, "events_before": around(j, k)}))
        elif e2e:
            j, what, det = e2e[0]
            res.violation("e2e-%d" % j, payload(j, what, {"details": det}))
        elif rejected or not harness_ok or not proofs_ok or bad_doct or (harness_ok and ok and not doct):
            what = ("the acceptor model/M5lb.v rejects a trace of the implementation" if rejected else
                    "harness does not build/run against the tree" if not harness_ok else
                    "proof obligations of props/C01.v do not check" if not proofs_ok else
                    "a doctored trace is accepted by model/M5lb.v: " + ", ".join(bad_doct) if bad_doct else
                    "no trace suitable for the doctored-trace self test was produced")
            p = {"property": "C01", "what": what, "seed": seed, "tier": tier,
                 "broken": "model/M5lb.v (acceptor) vs the router/balancer code" if (rejected or not harness_ok or bad_doct or not doct) else "props/C01.v"}
            if rejected:
                j, k = rejected[0]
                p = payload(j, what, {"rejected_event_index": k, "events_before": around(j, k), "broken": p["broken"],
                                      "rejected_scenarios": len(rejected)})
            if not harness_ok:
                p["harness_output"] = gout[-3000:]
            if not proofs_ok:
                p["coq_output"] = (blog + pa)[-3000:]
            res.violation("broken", p, no_input=True)
        return res.finish()
    finally:
        work.cleanup()
