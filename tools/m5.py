"""Concurrent scenarios on the virtual clock and conversion of the recorded event
traces (harness/sim_test.go) into Coq terms of model/Trace.v."""
import random

from vlib import *

SEC = 1_000_000_000
MS = 1_000_000
H = lambda s: (s if isinstance(s, bytes) else s.encode()).hex()

TARGET_POOL = [b"ta:80", b"tb:80", b"tc:80", b"td:80", b"te:80", b"tf:80", b"tg:80", b"th:80"] + [b"u%d:80" % i for i in range(600)]
# (long enough that a generator cycling through it does not reuse a name within one scenario: the probe script of a target
#  is keyed by its name, and a reused name would make an installed healthy target inherit a failing script)
POINTS = ["req:routed", "req:gate-passed", "req:lb-picked", "req:claimed", "deploy:found", "deploy:lb-created", "deploy:healthy",
          "deploy:slot-updated", "deploy:installed", "drain:marked", "probe:applied", "pause:gate-set"]
# snapshot:* yields are NOT armed by the random generator: a goroutine parked there holds the snapshot mutex and a
# second command would block on it (a sync.Mutex wait is not "durably blocked" for synctest); C12 has its own ops.
SNAPSHOT_POINTS = ["snapshot:collected", "snapshot:created", "snapshot:written", "snapshot:renamed"]


class Gen:
    def __init__(self, rnd, profile=None):
        self.rnd = rnd
        self.p = {"requests": 1.0, "deploys": 1.0, "pause": 0.6, "rollout": 0.4, "remove": 0.15, "yields": 0.5,
                  "flap": 0.3, "hang": 0.25, "hosts": [b"a.example.com", b"b.example.com"], "services": [b"web", b"api"],
                  "upgrade": 0.0, "flap_targets": True, "behaviours": None, "fail_deploys": 0.2, "points": POINTS,
                  "drain_timeouts": [0, 1 * SEC, 3 * SEC, 3 * SEC],
                  # cooldown > 0: a command on a service is (mostly) issued only when the previous command on that service is
                  # that much virtual time back - the properties quantify over ONE command interleaved with requests;
                  # "overlap" is the share of commands issued regardless
                  "cooldown": 0, "overlap": 0.15}
        if profile:
            self.p.update(profile)
        self.steps = []
        self.nreq = 0
        self.ncmd = 0
        self.next_target = 0
        self.live = {}          # service name -> host
        self.armed = []         # points armed and not yet released
        self.clock = 0          # virtual time slept so far
        self.last_cmd = {}      # service name -> clock of the last command on it

    def targets(self, n, healthy=True):
        rnd = self.rnd
        out = []
        for _ in range(n):
            name = b"t%d:80" % self.next_target        # never reused: the probe script of a target belongs to its name
            self.next_target += 1
            r = rnd.random()
            if not healthy:
                probes = rnd.choice([["refused"], ["status:503"], ["hang"], ["slow:%d" % (7 * SEC)], ["refused", "status:500", "refused"]])
            elif r < 0.55:
                probes = ["ok"]
            elif r < 0.8:
                k = rnd.randint(1, 3)
                probes = [rnd.choice(["refused", "status:503", "status:302"]) for _ in range(k)] + ["ok"]
            elif r < 0.9:
                # a slow first answer, positive or negative (slower than the probe interval: the next probe is due meanwhile)
                probes = [rnd.choice(["slow:%d" % (100 * MS), "slow:%d" % (900 * MS), "slow:%d" % (1500 * MS),
                                      "slow:%d:500" % (1500 * MS), "slow:%d:503" % (2500 * MS)])] + ["ok"]
            elif not self.p["flap_targets"]:
                probes = ["ok"]
            else:
                probes = ["ok", "ok", rnd.choice(["refused", "status:500"]), "ok"]      # flaps after deployment
            out.append({"name": H(name), "probes": probes})
        return out

    def cmd_id(self):
        self.ncmd += 1
        return "c%d" % self.ncmd

    def deploy(self, name, async_=True, healthy=True, host=None):
        rnd = self.rnd
        host = host or self.live.get(name) or rnd.choice(self.p["hosts"])
        st = {"op": "deploy", "id": self.cmd_id(), "async": async_, "name": H(name), "hosts": [H(host)], "prefixes": [],
              "tls": False, "tls_redirect": False, "strip": True, "cert": "none", "pages": "none",
              "targets": self.targets(rnd.choice([1, 1, 2, 3]), healthy),
              "deploy_timeout": rnd.choice([2, 3, 5]) * SEC, "drain_timeout": rnd.choice(self.p["drain_timeouts"]),
              "topts": {"interval": SEC, "timeout": rnd.choice([500 * MS, 5 * SEC])}}
        self.steps.append(st)
        if healthy:
            self.live.setdefault(name, host)

    def request(self, name=None):
        rnd = self.rnd
        self.nreq += 1
        names = list(self.live) or self.p["services"]
        name = name or rnd.choice(names)
        host = self.live.get(name, rnd.choice(self.p["hosts"]))
        r = rnd.random()
        if self.p["behaviours"]:
            beh = rnd.choice(self.p["behaviours"])
        elif r < self.p["hang"]:
            beh = rnd.choice(["hang", "delay:%d" % (rnd.choice([1, 2, 4, 10]) * SEC), "delay:%d" % (3 * SEC - 1), "delay:%d" % (3 * SEC),
                              "delay:%d" % (1 * SEC + 1)])
        else:
            beh = rnd.choice(["reply", "reply", "reply", "delay:%d" % (100 * MS), "fault:boom"])
        hdrs = []
        if rnd.random() < 0.3:
            hdrs.append([H(b"Cookie"), H(b"kamal-rollout=" + rnd.choice([b"alice", b"bob", b"zed"]))])
        self.steps.append({"op": "request", "id": "r%d" % self.nreq, "async": True, "host": H(host),
                           "uri": H(rnd.choice([b"/", b"/x", b"/up"])), "behaviour": beh, "headers": hdrs,
                           "method": rnd.choice(["GET", "GET", "POST"])})

    def sleep(self):
        d = self.rnd.choice([0, 1, 1 * MS, 100 * MS, 500 * MS, 1 * SEC, 1 * SEC, 2 * SEC, 3 * SEC, 5 * SEC])
        if d == 0:
            self.steps.append({"op": "settle"})
        else:
            self.steps.append({"op": "sleep", "ns": d})
            self.clock += d

    def may_command(self, name):
        """cooldown rule; when the command must wait, time passes or a request is sent instead"""
        cd = self.p["cooldown"]
        if not cd or name not in self.last_cmd or self.clock - self.last_cmd[name] >= cd or self.rnd.random() < self.p["overlap"]:
            self.last_cmd[name] = self.clock
            return True
        if self.rnd.random() < 0.5:
            d = self.rnd.choice([1, 2, 3, 5]) * SEC
            self.steps.append({"op": "sleep", "ns": d})
            self.clock += d
        else:
            self.request()
        return False

    def gen(self, n_actions):
        rnd, p = self.rnd, self.p
        # initial services, deployed synchronously
        for name in (p["services"] if p.get("initial_all") else p["services"][:rnd.choice([1, 1, 2])]):
            self.deploy(name, async_=False, host=p["hosts"][len(self.live) % len(p["hosts"])])
            for t in self.steps[-1]["targets"]:
                t["probes"] = ["ok"]                       # the initial deployments always succeed
        for _ in range(n_actions):
            r = rnd.random() * (p["requests"] + p["deploys"] + p["pause"] + p["rollout"] + p["remove"] + p["yields"] + p["flap"] + 1.0)
            acc = p["requests"]
            if r < acc:
                for _ in range(rnd.choice([1, 1, 2, 3])):
                    self.request()
                continue
            acc += p["deploys"]
            if r < acc:
                name = rnd.choice(p["services"])
                if self.may_command(name):
                    self.deploy(name, healthy=rnd.random() >= self.p["fail_deploys"])
                continue
            acc += p["pause"]
            if r < acc and self.live:
                name = rnd.choice(list(self.live))
                if not self.may_command(name):
                    continue
                k = rnd.choice(["pause", "pause", "stop", "resume", "resume"])
                st = {"op": k, "id": self.cmd_id(), "async": True, "name": H(name)}
                if k == "pause":
                    st.update({"fail_after": rnd.choice([1, 2, 4]) * SEC, "drain_timeout": rnd.choice([0, 1, 3]) * SEC})
                if k == "stop":
                    st.update({"msg": H(rnd.choice([b"stopped", b"stopped", b""])), "drain_timeout": rnd.choice([0, 1, 3]) * SEC})
                self.steps.append(st)
                continue
            acc += p["rollout"]
            if r < acc and self.live:
                name = rnd.choice(list(self.live))
                if not self.may_command(name):
                    continue
                k = rnd.choice(["rollout_deploy", "rollout_set", "rollout_stop"])
                st = {"op": k, "id": self.cmd_id(), "async": True, "name": H(name)}
                if k == "rollout_deploy":
                    st.update({"targets": self.targets(rnd.choice([1, 2]), rnd.random() < 0.85),
                               "deploy_timeout": rnd.choice([2, 5]) * SEC, "drain_timeout": rnd.choice([0, 1, 3]) * SEC})
                if k == "rollout_set":
                    st.update({"pct": rnd.choice([0, 50, 100]), "allow": [H(b"alice")] if rnd.random() < 0.5 else []})
                self.steps.append(st)
                continue
            acc += p["remove"]
            if r < acc and self.live:
                name = rnd.choice(list(self.live))
                if not self.may_command(name):
                    continue
                self.steps.append({"op": "remove", "id": self.cmd_id(), "async": True, "name": H(name)})
                del self.live[name]
                continue
            acc += p["yields"]
            if r < acc:
                if self.armed and rnd.random() < 0.6:
                    pt = self.armed.pop(rnd.randrange(len(self.armed)))
                    self.steps.append({"op": "release", "point": pt, "who": ""})
                else:
                    pt = rnd.choice(self.p["points"])
                    self.steps.append({"op": "arm", "point": pt, "n": 1})
                    self.armed.append(pt)
                continue
            acc += p["flap"]
            if r < acc and self.next_target:
                name = b"t%d:80" % rnd.randrange(self.next_target)
                self.steps.append({"op": "probe_script", "targets": [{"name": H(name), "probes": rnd.choice([["refused"], ["ok"], ["status:500", "ok"], ["refused", "refused", "ok"]])}]})
                continue
            self.sleep()
        # release whatever is still parked, then let everything run out
        for pt in self.armed:
            self.steps.append({"op": "release", "point": pt, "who": ""})
        for _ in range(3):
            for pt in POINTS:
                self.steps.append({"op": "release", "point": pt, "who": ""})
        self.steps.append({"op": "sleep", "ns": 20 * SEC})
        self.steps.append({"op": "observe", "id": "final"})
        return {"steps": self.steps}


# ------------------------------------------------------------------ terms ----

def idn(s):
    """'T3:name' -> 3, 'L1' -> 1, 'S2:web' -> 2, 'P0' -> 0"""
    return int(re.match(r"[A-Z](\d+)", s).group(1))


def num_after(s):
    m = re.fullmatch(r"[a-z]+(\d+)(?:_(\d+))?", s)
    if not m:
        return None
    return int(m.group(1)) * 1000 + int(m.group(2)) if m.group(2) else int(m.group(1))


def actor_term(g):
    if g == "probe" or g == "":
        return "AEnv"
    n = num_after(g)
    if n is None:
        return "AEnv"
    if g[0] == "r" or g[0] == "q":
        return "(AReq %d)" % n
    if g[0] == "c":
        return "(ACmd %d)" % n
    return "(AGo %d)" % n


TST = {0: "TAdding", 1: "TDraining", 2: "THealthy", 3: "TUnhealthy"}
GST = {0: "GRunning", 1: "GPaused", 2: "GStopped"}
GACT = {0: "AProceed", 1: "ATimedOut", 2: "AStopped"}
CMDK = {"deploy": "CkDeploy", "rollout_deploy": "CkRolloutDeploy", "rollout_set": "CkRolloutSet", "rollout_stop": "CkRolloutStop",
        "pause": "CkPause", "stop": "CkStop", "resume": "CkResume", "remove": "CkRemove"}
ERRC = {"not_found": 1, "unhealthy": 2, "host_in_use": 3, "invalid_target": 4, "cert": 5, "wildcard_acme": 6, "pages": 7,
        "rollout_not_set": 8}


def opt_id(s):
    return "None" if s in ("nil", None, "") else "(Some %d)" % idn(s)


def chan_term(s):
    return "None" if s == "chan:nil" else "(Some %d)" % int(s.split(":")[1])


def rid(s):
    n = num_after(s)
    return n if n is not None else 999999


def _trace_has_restored():
    try:
        import vlib
        return "KRestored" in open(os.path.join(vlib.COQ, "model", "Trace.v")).read()
    except OSError:
        return False


RESTORE_EVENTS = _trace_has_restored()


def probe_may_succeed(outcome):
    """the scripted answer to this probe is a 2xx (at once or late): the only probes a successful result can come from"""
    if outcome == "ok":
        return True
    parts = outcome.split(":")
    if parts[0] == "status":
        return 200 <= int(parts[1]) <= 299
    if parts[0] == "slow":
        return len(parts) < 3 or 200 <= int(parts[2]) <= 299
    return False


def kind_term(e):
    k, a = e["kind"], e["args"]
    if k == "issue":
        return "KIssue %d %s %s" % (rid(a[0]), CMDK.get(a[1], "CkDeploy"), str_lit(a[2].encode("utf-8", "surrogateescape")))
    if k == "return":
        r = a[1]
        return "KReturn %d %s" % (rid(a[0]), "CROk" if r == "ok" else "CRPanic" if r == "panic" else "(CRErr %d)" % ERRC.get(r, 99))
    if k == "arrive":
        return "KArrive %d" % rid(a[0])
    if k == "respond":
        return "KRespond %d %d %s" % (rid(a[0]), a[1], str_lit(a[2].encode()))
    if k == "probe-sent":
        return "KProbeSent %s %s" % (str_lit(a[0].encode()), bool_lit(probe_may_succeed(a[1])))
    if k == "at-target":
        return "KAtTarget %d %d" % (idn(a[0]), rid(a[1]))
    if k == "target-replied":
        return "KTargetReplied %d %d %d" % (idn(a[0]), rid(a[1]), a[2])
    if k == "target-failed":
        return "KTargetFailed %d %d %d" % (idn(a[0]), rid(a[1]), {"fault": 0, "draining": 1, "client": 2}[a[2]])
    if k == "routed":
        return "KRouted %d %s" % (rid(a[0]), opt_id(a[1]))
    if k == "svc-copy":
        return "KSvcCopy %d %d" % (idn(a[0]), idn(a[1]))
    if k == "deploy-lb":
        return "KDeployLb %d %s %d" % (idn(a[0]), bool_lit(a[1] == 1), idn(a[2]))
    if k == "deploy-waited":
        return "KDeployWaited %d %s" % (idn(a[0]), bool_lit(a[1]))
    if k == "slot":
        # a nil balancer put into a slot (not a behaviour of the pinned code: every acceptor rejects the unknown id 4095)
        return "KSlot %d %s %d %s" % (idn(a[0]), bool_lit(a[1] == 1), 4095 if a[2] == "nil" else idn(a[2]), opt_id(a[3]))
    if k == "install":
        return "KInstall %d %s" % (idn(a[0]), bool_lit(a[1]))
    if k == "removed":
        return "KRemoved %d" % idn(a[0])
    if k == "restored":
        # RestoreLastSavedState put a service object read from the state file into the table (hook 4a0387c); the constructor
        # exists once model/Trace.v knows restored services (RESTORE_EVENTS), until then the event is one the views ignore
        return ("KRestored %d %s %s" % (idn(a[0]), opt_id(a[1]), opt_id(a[2]))) if RESTORE_EVENTS else "KOther"
    if k == "rollout-set":
        return "KRolloutSet %d" % idn(a[0])
    if k == "rollout-stop":
        return "KRolloutStop %d" % idn(a[0])
    if k == "pick":
        return "KPick %d %d %s" % (rid(a[0]), idn(a[1]), opt_id(a[2]))
    if k == "gate-set":
        return "KGateSet %d %s %s" % (idn(a[0]), GST[a[1]], chan_term(a[2]))
    if k == "gate-read":
        return "KGateRead %d %s %s" % (idn(a[0]), GST[a[1]], chan_term(a[2]))
    if k == "gate-wake":
        return "KGateWake %d %s" % (idn(a[0]), bool_lit(a[1]))
    if k == "gate-result":
        return "KGateResult %d %d %s" % (rid(a[0]), idn(a[1]), GACT[a[2]])
    if k == "lb-new":
        return "KLbNew %d %s" % (idn(a[0]), "[" + ";".join("%d" % idn(t) for t in a[1]) + "]")
    if k == "lb-dispose":
        return "KLbDispose %d" % idn(a[0])
    if k == "lb-claim":
        return "KLbClaim %d %s %d" % (idn(a[0]), opt_id(a[1]), rid(a[2]))
    if k == "rotation":
        return "KRotation %d %s" % (idn(a[0]), "[" + ";".join("%d" % idn(t) for t in a[1]) + "]")
    if k == "claim":
        return "KClaim %d %d" % (idn(a[0]), rid(a[1]))
    if k == "claim-refused":
        return "KClaimRefused %d %d" % (idn(a[0]), rid(a[1]))
    if k == "end":
        return "KEnd %d %d" % (idn(a[0]), rid(a[1]))
    if k == "hijacked":
        return "KHijacked %d" % rid(a[0])
    if k == "probe-apply":
        return "KProbeApply %d %s %s %s" % (idn(a[0]), bool_lit(a[1]), TST[a[2]], TST[a[3]])
    if k == "waiter":
        return "KWaiter %d %s" % (idn(a[0]), bool_lit(a[1]))
    if k == "probe-stop":
        return "KProbeStop %d" % idn(a[0])
    if k == "state-set":
        return "KStateSet %d %s %s" % (idn(a[0]), TST[a[1]], TST[a[2]])
    if k == "drain-begin":
        return "KDrainBegin %d %s %d" % (idn(a[0]), TST[a[1]], a[2])
    if k == "drain-snapshot":
        return "KDrainSnapshot %d %s" % (idn(a[0]), "[" + ";".join("(%d, %s)" % (rid(x.rstrip("!")), bool_lit(x.endswith("!"))) for x in a[1]) + "]")
    if k == "drain-deadline":
        return "KDrainDeadline %d" % idn(a[0])
    if k == "drain-cancel-rest":
        return "KDrainCancelRest %d" % idn(a[0])
    if k == "snap-collect":
        return "KSnapCollect %s" % ("[" + ";".join("%d" % idn(x) for x in a[1]) + "]")
    if k == "snap-create":
        return "KSnapCreate"
    if k == "snap-write":
        return "KSnapWrite"
    if k == "snap-rename":
        return "KSnapRename"
    if k in LINK_KINDS:
        if k == "svc-drain":
            return "KSvcDrain %d %s" % (idn(a[0]), "[" + ";".join("%d" % idn(x) for x in a[1:3] if x != "nil") + "]")
        if k == "svc-drain-done":
            return "KSvcDrainDone %d" % idn(a[0])
        if k == "drainall":
            return "KDrainAll %d %d" % (idn(a[0]), idn(a[1]))
        if k == "drain-child":
            return "KDrainChild %d %d" % (idn(a[0]), idn(a[1]))
        return "KDrainAllDone %d %d" % (idn(a[0]), idn(a[1]))
    if k == "parked":
        return "KParked"
    if k == "released":
        return "KReleased"
    return "KOther"


LINK_KINDS = {"svc-drain", "svc-drain-done", "drainall", "drain-child", "drainall-done"}
LINK_EVENTS = False     # True: the harness records the command <-> drain linkage events (VERIF_LINK=1); the views that predate
                        # them are offered the trace without them (Trace.unlinked)


def trace_term(events):
    items = []
    seen = set()
    for e in events:
        for a in e["args"]:
            for x in (a if isinstance(a, list) else [a]):
                if isinstance(x, str) and re.fullmatch(r"[ST]\d+:.*", x, re.S) and x not in seen:
                    seen.add(x)
                    items.append("mkEv %d AEnv (%s %d %s)" % (e["t"], "KSvcName" if x[0] == "S" else "KTargetName", idn(x),
                                                              str_lit(x.split(":", 1)[1].encode("utf-8", "surrogateescape"))))
        kt = kind_term(e)
        if kt is None:
            continue
        items.append("mkEv %d %s (%s)" % (e["t"], actor_term(e["g"]), kt))
        if e["kind"] == "issue" and len(e["args"]) >= 6:
            a = e["args"]
            items.append("mkEv %d %s (KParams %d %d %d %d)" % (e["t"], actor_term(e["g"]), rid(a[0]), a[3], a[4], a[5]))
    return "[" + ";\n ".join(items) + "]"


last_hang = None      # set when the last harness run was abandoned because a scenario did not end


def read_hang(work, scenarios):
    """{"scenario", "index", "stacks"} if the harness' watchdog abandoned the run (harness/simrun_test.go)"""
    global last_hang
    last_hang = None
    path = work.path("m5out.jsonl") + ".hang"
    if os.path.exists(path):
        h = json.load(open(path))
        os.remove(path)
        last_hang = {"index": h["i"], "scenario": scenarios[h["i"]] if h["i"] < len(scenarios) else None,
                     "limit_s": h["limit_s"], "stacks": h["stacks"][-6000:]}
        import vlib
        vlib.HANGS.append(last_hang)
    return last_hang


def run_scenarios(work, scenarios, files=None):
    write_jsonl(work.path("m5scen.jsonl"), scenarios)
    rc, gout = go_test(work, files or ["common_test.go", "sim_test.go", "simrun_test.go", "assets_test.go"], "^TestVerifSim$",
                       dict({"VERIF_IN": work.path("m5scen.jsonl"), "VERIF_OUT": work.path("m5out.jsonl")},
                            **({"VERIF_LINK": "1"} if LINK_EVENTS else {})), synctest=True)
    if read_hang(work, scenarios):
        return False, gout, []
    import vlib
    vlib.note_crash(work.path("m5out.jsonl"), scenarios, rc, gout)
    if rc != 0 or not os.path.exists(work.path("m5out.jsonl")):
        return False, gout, []
    outs = read_jsonl(work.path("m5out.jsonl"))
    import vlib
    vlib.note_panics(scenarios, outs)
    return len(outs) == len(scenarios), gout, outs
