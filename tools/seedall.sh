#!/bin/bash
# Re-runs every recorded seeded change against the check(s) that are recorded as catching it; prints one line per seed.
# usage: seedall.sh [pattern]   (e.g. seedall.sh 'C0[1-3]*')
cd /verif
exec 9>/verif/.work/seedq.lock
for d in seeded/${1:-*}/; do
  s=$(basename $d)
  checks=$(python3 -c "
import json; m=json.load(open('$d/meta.json')); print(' '.join(m.get('detected_by') or [m['property']]))" 2>/dev/null)
  for c in $checks; do
    flock 9
    out=$(tools/seedrun.sh $s $c 2>&1 | grep -v conda)
    flock -u 9
    v=$(echo "$out" | grep -c '^VIOLATION')
    nf=$(echo "$out" | grep -c 'no-failing-input-found')
    echo "$s $c violations=$v noinput=$nf $(echo "$out" | grep '^exit=')"
  done
done
