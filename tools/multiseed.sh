#!/bin/bash
# usage: multiseed.sh <tier> <seed>...   -- runs every check of the manifest on the unchanged tree under each seed; one line per run.
# Meant for `vp run` (a snapshot: builds first); any VIOLATION / non-zero exit on the unchanged tree is a false alarm to be corrected.
cd "$(dirname "$0")/.."
tier=$1; shift
[ -f coq/props/C01.vo ] || ./check setup > multiseed-setup.log 2>&1 || { echo "setup failed"; tail -30 multiseed-setup.log; exit 2; }
for s in "$@"; do
  for c in C01 C02 C03 C04 C05 C06 C07 C08 C09 C10 C11 C12 C13 C14 C15 C16 C17 C18 C19 C20; do
    t0=$(date +%s)
    out=$(VERIF_SEED=$s ./check $c $tier 2>&1); rc=$?
    echo "seed=$s $c $tier exit=$rc $(( $(date +%s) - t0 ))s $(echo "$out" | grep -c '^VIOLATION') violation(s)"
    if [ $rc -ne 0 ]; then echo "$out" | grep -E '^(VIOLATION|KNOWN)' | cut -c1-300; mkdir -p multiseed-replays; cp replay/$c-* multiseed-replays/ 2>/dev/null; fi
  done
done
