#!/usr/bin/env python3
"""Regenerates /verif/MANIFEST.json from the table below (keeps it valid)."""
import json
import os
import subprocess

V = os.path.dirname(os.path.dirname(os.path.abspath(__file__)))
props = [json.loads(l) for l in open(os.path.join(V, "properties.jsonl"))]

COMMON_NOTE = ("Trusted: Coq 8.16.1 kernel + vm_compute (no native_compute); the hand-written Gallina model; the correspondence "
               "generator, the Go harness (overlaid test files, virtual clock via testing/synctest where used) and the Python "
               "glue; Go runtime / net/http / encoding/json etc. are modelled, not verified. ")

CHECKS = {
    "C01": dict(
        text="Theorems over every event trace accepted by the load-balancer acceptor model/M5lb.v (props/C01.v): a request is forwarded to a target only "
             "after every target created with it had a successful probe result and the deploy's wait succeeded; a failed wait makes the balancer inert "
             "everywhere in the trace, the command returns 'unhealthy' and none of its steps changes the routing view; the wait succeeds only after each "
             "target's probe goroutine rebuilt the rotation with it (D1's repair; pinned order refuted by a witness); accepted => monitor c01_ok. "
             "Correspondence: directed deploy scenarios (1-4 targets; refused / non-2xx / slow / late / deadline +-1 ns probes; requests before / during / "
             "at yields / after; new / existing / rollout; failed deploys) plus random concurrent scenarios on the real code under the virtual clock; every "
             "recorded trace must be accepted; monitors c01_ok / c01_deadline_ok and probe-verdict / leak / served-by checks. Session 4: restarts are inside the acceptor (rule KRestored; props/C01restore.v: a command's balancer is never restored, a restored one is never waited on or slotted, its claims come from picks after the restore within the last rebuilt rotation); c01_forward_after_all_probes restated with the restore disjunct, verbatim for balancers created by commands.",
        note="No axioms. An old-process command still running across a restart is not modelled; the timeout side is an acceptor rule and a monitor (timing model: C17); traces recorded with GOMAXPROCS(1), no async preemption.",
        technique="Coq proof (state and history invariants over an event-trace acceptor, simulation to the monitor) + kernel-evaluated trace acceptance", ref="§7 C01"),
    "C02": dict(
        text="Theorems over every event trace accepted by model/M5full.v (props/C02.v): complete classification of every response by the request's path "
             "(404 only without a route; 503 only from a stopped gate, an empty rotation or a claim refused by a draining target; 504 only from the gate "
             "timer, a drain cut-off or the target; 502 only from a transport fault or the target); slots only hold balancers whose wait succeeded; a clean "
             "(waited, unmarked, non-empty) balancer always yields a target and never refuses; hence a request of a service that is not paused/stopped whose "
             "balancer is clean at its claim and whose target answers is answered by that target with its status (c02_no_proxy_error_when_clean); the "
             "routing/claim race is refuted by an accepted witness (c02_refuted_race) and the property proved outside it (c02_holds_outside_race). "
             "Correspondence: random and hand-forced interleavings of requests with successive redeploys (yields at every request and deploy step) on the "
             "real code under the virtual clock; every recorded trace must be accepted; monitor corr/C02corr.c02_check on the trace alone.",
        note="No axioms. Recorded finding C02-D2 (a request routed before the table swap is refused by the draining replaced target: 503). Atomic lock regions assumed "
             "(GOMAXPROCS(1), no async preemption; data-race freedom is C18's concern). Restart and upgraded connections are outside this acceptor.",
        technique="Coq proof (state and history invariants over an event-trace acceptor) + kernel-evaluated trace acceptance + trace monitor with known-finding pattern", ref="§7 C02"),
    "C03": dict(
        text="Theorems over every accepted trace of model/M5full.v (props/C03.v): a claim is accepted only on a target that is not draining; a drain's snapshot "
             "is the in-flight set; when a Drain call ends every snapshot request has ended or been cut off; a request is cut off only by a drain that had it "
             "in its snapshot, after that drain's deadline (mark + timeout), or - an upgraded connection - at the snapshot; cut-off requests are answered 504, "
             "upgraded ones 101; early return of a second Drain and the probe-flips-draining behaviour stated honestly (D11, D12). Command level "
             "(props/C03cmd.v, over traces accepted by the timing view model/M5time.v and jointly by both views): when a command returns no Drain call it "
             "certainly started is open; every such call ended (cancel-rest, then the restore by the same goroutine) before the return; a deploy's return is "
             "preceded, after its install, by a Drain of EVERY target of the balancer it replaced, with the drain timeout it was given; jointly: at the "
             "return every request of those calls' snapshots has left the target or been cut off; a claim on a target comes from a request whose service "
             "object held that balancer in a slot when it picked it (the residual of finding D2); the 'possible owner' form refuted by witness. EXACT linkage "
             "(props/C03link.v over model/M5cmd.v, traces recorded with the drainall / drain-child / drainall-done / svc-drain hook events; no ownership "
             "inference, no timing): a DrainAll call is done only after a child goroutine has run Drain on EVERY target of the balancer to its end (cancel-rest, "
             "restore) or found it draining; a deploy's successful return is preceded by the completed DrainAll of the balancer it replaced, a pause's / stop's "
             "by completed DrainAll calls, entered after its gate was set, on every balancer of the service; jointly with M5full: at the return every request "
             "of every such Drain call's snapshot has left the target or been cut off. The remaining "
             "command-level clause (nothing claimed on the drained targets afterwards, modulo D2/D3) is the monitor corr/C03corr.c03_check. Correspondence: "
             "in-flight sets finishing early / at the deadline +-1 ns / never, upgraded connections (101 at once or during the drain), drain timeouts 0..3 s, "
             "late and held requests forced through yields; every recorded trace must be accepted by ALL THREE views (M5full, M5time on the trace without linkage events, M5cmd).",
        note="No axioms. Recorded finding C03-D2D3 (requests already routed / past the gate reach replaced or paused targets after the command returned). Which command "
             "started a Drain call is inferred by the timing view (same instant, same drain timeout): the theorems carry 'c is the only candidate' as an explicit hypothesis; "
             "the restoring state-set of a Drain call never sets 'draining' (rule tightened in session 3; its overwriting a probe result is finding D12). Overlapping commands on one service are outside the "
             "quantifier (monitor excludes them). 'Cut off' = context cancelled; connection teardown timing not modelled.",
        technique="Coq proof (invariants over two event-trace acceptors, joint theorems) + kernel-evaluated trace acceptance by both + command-level trace monitor with known-finding pattern", ref="§7 C03"),
    "C04": dict(
        text="Theorems over all tables, hosts and paths on model/ServiceMap.v (props/C04.v: declarative route_spec incl. uniqueness, "
             "independence of sort/tie/map order and of table order, history-freedom over all command histories incl. restarts, port "
             "ignored incl. IPv6 literals); correspondence: random colliding tables deployed in three command orders (shuffled, with "
             "redeploys/removals, through a restart) and queried through the real Router on a Host x path matrix, compared in the Coq kernel. "
             "Two monitors on the observed history alone: the routing rule against the table read from the state file (c04_ok) and against the "
             "bindings AS COMMANDED by the successful deploys/removes (corr/C04cmd.c04_cmd_ok; link theorems props/C04cmd.v: the model's own "
             "histories satisfy it, the commanded table is the model's table and satisfies route_spec).",
        note="No axioms. net.SplitHostPort and URL path decoding are modelled. The commanded-table link is proved for histories of TLS-less deploys with at least one target, removes and restarts and requests over plain HTTP (what the C04 generator issues); the unrestricted form is refuted by a witness (a TLS request to a TLS-less service is answered 503).",
        technique="Coq proof (declarative spec, permutation/sortedness lemmas, invariant over histories) + kernel-evaluated correspondence", ref="§7 C04"),
    "C05": dict(
        text="Invariant proved over all command histories and both code variants on model/Seq.v (props/C05.v: unique owner of every "
             "(host, prefix) pair and unique names also for the saved state; conflict rejected and state unchanged; redeploy moves; remove "
             "releases; one winner in either order). Concurrent form (props/C05conc.v over model/M5own.v: every sequence of the router's "
             "table-changing write-lock regions, install = availability check + Set, remove): each pair owned once after every region; a "
             "conflicting install fails and changes nothing, a conflict-free one succeeds; two successful installs of different services "
             "claiming one pair are separated by a release; of any number of racers for the same free pairs exactly one - the first to take "
             "the lock - succeeds; accepted => monitor. Correspondence: conflict-rich random histories on the real router compared step by "
             "step; interleaved deploys on the virtual clock and racing deploys under the real scheduler whose recorded lock-region "
             "sequences (install/removed hook events with the options given to the availability check) must be accepted by M5own and satisfy c05c_ok. Second monitor corr/C05cmd.c05_cmd_ok: ownership of the pairs AS COMMANDED (normalised as documented) after every command - a proxy that files two spellings of one prefix under different keys is consistent with its own state file.",
        note="No axioms. That installService's check-and-set and RemoveService's removal each run under the router's write lock (so that an execution IS a sequence of such regions) is the C18 lock-fact obligation plus the race stress.",
        technique="Coq proof (invariant by induction over command lists; invariant and release argument over sequences of lock regions) + kernel-evaluated correspondence and acceptance", ref="§7 C05"),
    "C06": dict(
        text="Theorem over all reachable states and all failing commands on model/Seq.v (props/C06.v); correspondence: histories rich in "
             "failing commands of every error class on the real router; monitor compares list, state file, probed targets and the "
             "request matrix before and after every failed command.",
        note="No axioms. The repaired defect D4 (probe loops left running after a host conflict) is kept as a refuted lemma on the pinned variant.",
        technique="Coq proof (case analysis of exec phases under a reachability invariant) + kernel-evaluated correspondence", ref="§7 C06"),
    "C07": dict(
        text="Theorems over all traces accepted by the pause-gate view model/M5gate.v and the routing/drain view model/M5path.v (props/C07.v): every parked "
             "request has exactly one outcome, decided by the close of its generation, the state re-read after the wake, or its own timer at arrival + the "
             "max-pause in force at arrival; it is neither forwarded nor answered in between; a repeated pause keeps the generation; a redeploy shares and "
             "preserves the gate; the health-check shortcut holds on model/Seq.v; 'pause never refuses' and 'resume uses the current targets' are refuted by "
             "real witnesses and proved outside the D3 / D2 / overlap windows. Correspondence: forced and random schedules of arrivals with pause / resume / "
             "stop / repeated pause / redeploy / timer expiries on the real router under the virtual clock; every trace accepted by both views and judged by "
             "corr/C07corr.c07_check in the kernel. Session 4: accepted => monitor link (props/C07link.v): on traces accepted by the (tightened) gate view and satisfying the side condition c07_side the monitor reports none of the gate-level codes (F_once F_read F_held F_chanwake F_timer F_late F_result F_status); the view was tightened where the link proofs showed slack (timer wake after the generation's close; proxy-made 503/504 naming a target). Directed schedules added: held requests with bodies, repeated pause with another max-pause.",
        note="No axioms. Recorded findings D3, D2, D3-overlap (known_findings/C07.json; proposed repairs in fixes/, not applied). The accepted => monitor link is not proved "
             "(monitor per service name, views per controller). A failing scenario is re-run alone before it is reported.",
        technique="Coq proof (invariants over two event-trace acceptors) + kernel-evaluated trace acceptance + trace monitor with known-finding patterns", ref="§7 C07"),
    "C08": dict(
        text="Theorems over all byte strings (html/template text escaper = byte-wise map, inertness, round trip, body = function of the escaped "
             "message) and over all states / command histories of model/Seq.v (stopped => 503-with-message or 200 on GET health, never forwarded; "
             "redeploys keep the pause state; stop/resume); tied to the router, pause controller, error-page middleware and html/template by a "
             "kernel-evaluated correspondence run with byte-for-byte 503 bodies (built-in page read from internal/pages/503.html at run time); plus "
             "directed scenarios in which requests are being HELD by a pause (half of them by a repeated pause) when the stop arrives: monitor "
             "corr/C08held.c08_held_bad (each answered 503 with the rendered message / 200 for GET health, none forwarded or left to its pause timeout; forwarding again after resume).",
        note="No axioms. html/template modelled for the text context only; invalid UTF-8 in a stop message is coerced by Go's JSON encoder in the state file (handled explicitly); "
             "residue: /.well-known/acme-challenge/ paths on automatic-TLS root services are answered by autocert before any policy.",
        technique="Coq proof (per-byte case analysis, invariants over exec) + kernel-evaluated differential correspondence on a virtual clock", ref="§7 C08"),
    "C09": dict(
        text="Theorems over every accepted trace of model/M5lb.v (props/C09.v): claims come from the round-robin pick within the rotation of the last "
             "KRotation = healthy targets; exclusion after a failed probe until made healthy again and rebuilt; recovery; none healthy => no target; "
             "floor/ceil fairness of the cursor arithmetic and of accepted traces; accepted => c09_rebuild_ok and (without drain restores over failed probes) "
             "c09_ok. Correspondence: flapping / all-failing / staggered / slow probe scripts, request bursts, parked requests, redeploys, drain scenarios "
             "plus random scenarios; monitors c09_ok / c09_rebuild_ok / c09_cadence. Probe cadence (props/C09probe.v, C09probelink.v over "
             "model/Ticker.v = HealthCheck.run/check: immediate first check, time.Ticker with its one-slot channel, probe timeout, Close): for every "
             "start time, interval > 0, timeout, answer script of any length and stop instant - probe k is sent at exactly t0 + k*interval when every "
             "check lasts less than the interval (no drift, for ever); in general the next check starts at the end of the previous one if a tick was "
             "missed meanwhile and on the first later tick otherwise (never overlapping, gap <= max(interval, timeout), re-synchronisation to the grid); "
             "result time and verdict; nothing sent or reported after Close; one requested strict bound refuted with witness and proved in its true form. "
             "Correspondence: per-target interval / timeout / scripted answer delays (ties at +-1 ns around interval, timeout, ticks, stop) on the real "
             "code under the virtual clock; every probe-sent / probe-apply instant must equal the model's exactly. Session 4: restored balancers are inside the acceptor and generated ('restored' family); monitor corr/C09rot.c09_rot_ok (every rebuilt rotation is exactly the healthy targets, each once, in order) with its link theorem and fairness over the HEALTHY targets (props/C09rot.v).",
        note="No axioms. Recorded finding C09-F1 (D12: the end of a Drain writes 'healthy' over a failed probe result; a successful probe flips 'draining' back to "
             "'healthy'). The 503 mapping belongs to C02. Ties between Close-by-deploy-timeout and a tick/result are decided by Go's select and timer heap: the generator keeps "
             "the deploy timeout 500 ns away from the loop's instants.",
        technique="Coq proof (invariants over an event-trace acceptor, arithmetic induction for fairness; induction over answer scripts for the ticker loop) + kernel-evaluated trace acceptance and exact timed correspondence", ref="§7 C09"),
    "C10": dict(
        text="Theorems over all cookie header bytes, percentages, allowlists and histories (props/C10.v: exactness, stickiness, monotonicity, "
             "100% total, share bound, float comparison = integer threshold via Flocq, history theorem incl. restart); correspondence: "
             "real Router with rollout targets, raw Cookie headers incl. FNV preimages at every threshold, split point read back from the state file. Histories in which one side's targets fail their probes and recover (corr/C10health.v): the split decision does not look at health; the chosen side's outage gives the proxy's 503.",
        note="Axioms only under c10_threshold* (stdlib/Flocq: classic, functional_extensionality_dep, sig_forall_dec, sig_not_dec, primitive float/int63 specs); "
             "everything else closed. net/http cookie parser and hash/fnv modelled.",
        technique="Coq proof (arithmetic + Flocq float/integer link + finite sweeps lifted by lemma) + kernel-evaluated correspondence", ref="§7 C10"),
    "C11": dict(
        text="Bisimulation theorem on model/Seq.v (props/C11.v): a restored state is observationally equivalent to the one that wrote the file and "
             "stays so under every continuation; correspondence: the same history run with and without a restart inserted at a random point on the "
             "real router - random pairs plus directed pairs (every kind of saved service state: running / paused / stopped / rollout targets with and "
             "without a split / after rollout stop, x every follow-up command, restart just before the follow-up); monitor compares every later "
             "result, list, state file, probed set and request answer of the two runs.",
        note="No axioms. Four repaired defects (D5 nil pause channel, D6 empty rollout balancer, D17 wildcard sub-path restore failure) kept as refuted lemmas on the pinned variant. "
             "JSON encoding is Go's (invalid UTF-8 in a stop message is replaced by U+FFFD: outside the generator, documented).",
        technique="Coq proof (bisimulation up to unobservable fields) + kernel-evaluated differential runs", ref="§7 C11"),
    "C12": dict(
        text="Theorems over all accepted traces of the snapshot view model/M5snap.v (props/C12.v), i.e. every crash point of every schedule of any number "
             "of overlapping commands: on the repaired tree the file is absent only before the first completed snapshot, otherwise exactly one completed "
             "snapshot of services installed / state held inside the window of the oldest command in progress; with one command at a time it is the "
             "configuration before or after the command; it is current whenever no command is in progress; snapshot sections are serialised. Correspondence: "
             "at every snapshot:* yield of every command of random histories, and after every step of random and all enumerated schedules of two overlapping "
             "commands, the state directory is copied and a fresh Router restored from it; monitor on those observations alone. File-system "
             "granularity: inotify event list of the state directory under the real scheduler (c12_fs_ok). Faults and crash leftovers (real files): "
             "commands run under RLIMIT_FSIZE so that the snapshot's write fails part-way (EFBIG), a <state>.tmp left by an earlier crash lies in the "
             "directory, restarts in between; monitor corr/C12fault.c12_fault_bad (always one complete snapshot; current after every command whose "
             "write could succeed; previous-or-current after a failed write; a restart restores what the state file describes).",
        note="No axioms. Process-kill semantics only (no power loss / fsync ordering); crash points are the hook yields around the file-system calls. Pinned D7 (truncate, stale) "
             "and the one-instant form for >=3 overlapping commands kept as refuted witnesses from real traces.",
        technique="Coq proof (invariants over a trace acceptor) + crash-point enumeration on the real code, evaluated in the Coq kernel", ref="§7 C12"),
    "C13": dict(
        text="Theorems on model/Url.v + model/Headers.v over all byte strings (props/C13.v: path round trip for valid encodings, decoded path kept, "
             "identity without stripping, literal-prefix stripping byte for byte, query verbatim, X-Forwarded-* table, request id/start policy, "
             "end-to-end header passage); correspondence: raw requests over loopback TCP through the real handler chain to a byte-recording "
             "target, generated/malformed paths, queries, header sets, response shapes; strict monitor evaluated in the Coq kernel. Also: groups of 24 exchanges in flight together to one target (each with its own path and query), a service with the root prefix and a sub-path (stripping), a service with a 250 ms target timeout and bodies arriving in two parts 600 ms apart.",
        note="No axioms. net/url, net/http and ReverseProxy wire behaviour (hop-by-hop removal, Date, sniffing, gzip) modelled and compared, not proved; "
             "six recorded findings (known_findings/C13.json: invalid path bytes re-encoded, sniffed Content-Type, transparent gunzip, User-Agent quirks, "
             "Connection-listed request id dropped, 304 loses Content-Type); repaired defect: prefix stripping lost percent-encoding.",
        technique="Coq proof (codec round-trip lemmas over bytes) + kernel-evaluated correspondence with known-finding patterns", ref="§7 C13"),
    "C14": dict(
        text="Theorems over all limits, chunkings and handler operation sequences on model/Buffer.v (props/C14.v); the model is tied to buffer.go "
             "and both middlewares by a correspondence run evaluated in the Coq kernel (exhaustive small scope + random Target-level exchanges). HEAD exchanges judged by corr/C14head.c14_head_bad (status and declared Content-Length reach the client); upgrade offers the target declines.",
        note="No axioms. net/http, ReverseProxy, os temp files modelled not verified. Note: built with Go >= 1.25 the request spill file is never closed "
             "(ReverseProxy wraps the body); the repository pins 1.24.2 where it is.",
        technique="Coq proof (induction over write sequences) + kernel-evaluated differential correspondence", ref="§7 C14"),
    "C15": dict(
        text="Theorems on model/ProxyError.v + model/ErrorPage.v (props/C15.v: total classification with the code's precedence; every fault before a "
             "response header block yields a complete response with status = classification (502/504 for target-side causes); page = custom, else "
             "built-in, else <h1>; a fault after the header block aborts without an error page; in-flight bookkeeping over an event acceptor: an ended "
             "request is in no later drain snapshot). Correspondence: fault enumeration with a byte-level scripted TCP target behind the target's own "
             "http.Transport x buffering x custom pages, through a real Server to a raw TCP client; exact timeout boundary on the virtual clock. A custom 504 page that is a template with a field reference.",
        note="Third recorded finding C15-F3 (a consequence of F1: a request with an unread body stuck in an unbounded dial stays in flight, a later drain waits for it; corr/C15f3.v). No axioms. Which Go error each wire fault produces and how an aborted response looks on the wire are net/http behaviour: enumerated and compared, not proved. "
             "Two recorded findings (known_findings/C15.json: the target timeout covers neither the dial nor the request write; proposal in fixes/).",
        technique="Coq proof (case analysis; invariant over an event acceptor) + kernel-evaluated fault-enumeration correspondence with known-finding patterns", ref="§7 C15"),
    "C16": dict(
        text="Theorems over all states/requests (redirect incl. host-without-port for every well-formed Host incl. IPv6 literals, refusal), all reachable "
             "states (inheritance invariant, certificates only for bound TLS root-path services, ACME wildcard refusal); tied to service.go, service_map.go, "
             "router.go, cert.go and autocert's pre-ACME decisions by correspondence including real Router.GetCertificate calls. Services with header forwarding and client headers claiming another scheme; restart with unreadable certificate files (corr/C16fault.v).",
        note="No axioms. TLS handshake, ACME exchange and non-ASCII IDNA not modelled; ACME challenge paths are residue. Repaired defect (IPv6 redirect lost brackets) kept as refuted lemma on the pinned function.",
        technique="Coq proof (per-byte case analysis, invariants over exec) + kernel-evaluated differential correspondence on a virtual clock", ref="§7 C16"),
    "C17": dict(
        text="Theorems over every event trace accepted by the timing view model/M5time.v (props/C17.v), for traces in which no goroutine was parked at a "
             "harness yield: deploy / rollout deploy return within deploy_timeout + drain_timeout of their issue, pause / stop within drain_timeout, the other "
             "commands at their issue time; a return happens at the time of an earlier event of the command's chain (own step, waiter event, end of a Drain "
             "call); a Drain call's wait ends at its begin, a request end, another drain's cancellation or exactly drain_timeout after its begin; after a "
             "failed deploy, a successful redeploy (replaced balancer) and a remove the targets concerned have no live probe loop in any later state, and any "
             "later probe to such a name is owed to another target; pinned D4 refuted by a witness; link proved: accepted => bounds part of the monitor. "
             "Correspondence: adversarial scenarios on the real code under the virtual clock (targets never answering / answering at the deploy deadline "
             "+-1 ns / flapping; requests hanging or ending at the drain deadline +-1 ns; timeouts incl. 0 and 1 ns; overlapping commands; >= 12 probe "
             "intervals observed after returns); every recorded trace must be accepted and satisfy the monitor c17_ok. Real-scheduler stress: a redeploy and a removal of one service issued together - afterwards every target still probed must belong to a listed service.",
        note="No axioms. Zero CPU time and exact timers are acceptor rules validated on every trace, not hypotheses; traces with armed yields are checked structurally only; "
             "promptness is a chain-event property, not the closed formula; the probe part of the monitor is tied to the view only by evaluating both on every trace; "
             "no upgraded connections; D11/D14 observed, undecided.",
        technique="Coq proof (state, frame and history invariants over an event-trace acceptor) + kernel-evaluated trace acceptance and monitor", ref="§7 C17"),
    "C18": dict(
        text="props/C18.v: accesses guarded by their lock are ordered by happens-before under Mutex/RWMutex semantics (locks_sound); a ranked lock order "
             "excludes cyclic waits; soundness of check_guarded / lock_order_acyclic w.r.t. the call paths of the extracted facts; end-to-end c18_no_race / "
             "c18_no_deadlock with the translator contract as explicit hypotheses; no command of any sequential history panics (M4). Tie = TRANSLATOR: "
             "harness/lockfacts re-extracts lock/access/call/go/close facts from /repo's source on every run into a generated LockFacts.v; two vm_compute "
             "obligations (facts guarded w.r.t. the written discipline, lock order acyclic) are discharged on them. A -race stress under the real "
             "scheduler (mixed scenarios + targeted two-sided ones, watchdog, panic capture) searches for a concrete failing schedule. The translator also reports a lock still held at a return statement; the stress deploys several targets that stay unhealthy and issues commands on a restored router.",
        note="No axioms. Trusted: the translator (type-level lock identities, freshness analysis; blind to captured locals and shared slice elements) and the ByOrder/Confined classes "
             "of the written discipline; the dynamic part only searches. No open finding: six races repaired (fixed.json), the last one - the TLS flags of sub-path "
             "services rewritten under the router lock and read without a common lock - in fix ce2a27e.",
        technique="Coq proof of a lock-set / happens-before theory and of checker soundness + source translator re-run every time + kernel-evaluated verdict + -race stress", ref="§7 C18"),
    "C19": dict(
        text="Theorems on model/Logging.v (props/C19.v: logged status = last WriteHeader / successful Hijack (101), 200 if none, equal to the status "
             "the client is told under a coherence condition every path of the modelled chain satisfies; logged length = sum of bytes the underlying "
             "writer accepted; exactly one record on return and on panic; host/path/query/method/request id/service/target/extra headers as projections). "
             "Correspondence: (a) the real LoggingMiddleware around scripted handlers/writers (all call sequences up to length 2/3), (b) a real Server with "
             "captured JSON records joined with what a raw client and scripted targets saw for 24 ending classes x header lists x request ids x queries. A buffering service with a 1 KiB memory share (responses copied from the spill file).",
        note="No axioms. That a deferred call runs once (also on panic) is Go semantics, observed; net/http's status rules modelled. Two recorded findings "
             "(known_findings/C19.json: HEAD + proxy error page logged with the page length; server-generated Date not visible to the logger); repaired defect "
             "59cbdb7 (buffered 103 Early Hints lost the final status) kept as refuted lemma on the pinned writer.",
        technique="Coq proof (fold invariants over writer operations, case analysis over chain endings) + kernel-evaluated two-level correspondence", ref="§7 C19"),
    "C20": dict(
        text="Theorems on model/Cli.v (props/C20.v: option precedence, atoi/ParseBool, deploy pre-run table, exit rule, list renderer round trip); "
             "correspondence on the BUILT BINARY (run option matrix, deploy validation matrix without a proxy, every client command against a running proxy, list output). A redeploy that outlasts the deploy timeout while draining (real 4 s request in flight); non-ASCII list cells; a command that leaves before the proxy's answer is judged by the exit rule.",
        note="No axioms. cobra/pflag parsing and the RPC layer are only compared. Repaired defect (TLS without host not refused) kept as refuted lemma on the pinned pre-run.",
        technique="Coq proof (decision tables, string functions) + kernel-evaluated correspondence against the binary", ref="§7 C20"),
}

PENDING = {}
for p in props:
    if p["id"] not in CHECKS:
        PENDING[p["id"]] = "check under construction in this session (see DESIGN.md build order); not claimed until its quick command passes"

hooks_commits = subprocess.run(["git", "-C", "/repo", "log", "--format=%h", "--grep=^verif hooks"], capture_output=True, text=True).stdout.split()

m = {
    "version": 1,
    "setup_cmd": "./check setup",
    "hooks": {"guard": "verif",
              "enable": "go test -tags verif -overlay <file mapping /verif/harness/*.go into the package> (GOEXPERIMENT=synctest for virtual-clock scenarios)",
              "baseline_off_cmd": "cd /repo && GOFLAGS=-mod=mod GOPROXY=off go test -vet=off -count=1 -json ./...",
              "source_commits": hooks_commits, "add_only": True},
    "engines": [
        {"name": "coq-model", "path": "coq/", "serves_properties": sorted(CHECKS),
         "kind_free_text": "Coq 8.16.1 development: executable Gallina model (coq/model), proofs (coq/proofs), property theorems (coq/props), correspondence predicates and monitors (coq/corr); full .vo build"},
        {"name": "go-harness", "path": "harness/", "serves_properties": sorted(CHECKS),
         "kind_free_text": "Go test files overlaid into /repo's packages (go test -overlay); run the real code on generated cases / histories, on a virtual clock where timing matters; observations are evaluated against the model inside Coq (vm_compute)"}],
    "checks": [],
    "not_applicable": [{"property_id": k, "reason": v} for k, v in sorted(PENDING.items())],
    "notes": "See DESIGN.md. known_findings/*.json lists recorded findings and fixed: entries.",
}
# additions of the end of session 4 (seventh round of seeded changes), appended to the level text
LATE = {
    "C01": "Also: health-check paths that are not plain absolute paths, a slow Debug-level log sink (log calls as scheduling points) and deploy "
           "timeouts of zero are generated; monitor corr/C01probe.c01_probe_backed_ok (every applied probe result is backed by a probe sent to "
           "that target's own address; sound and complete w.r.t. its counting specification, props/C01probe.v); the model's probe_next / "
           "next_idx are proved equal to definitions regenerated from target.go / load_balancer.go on every run (harness/gofacts, "
           "coq/corr/GenTie.v.in).",
    "C05": "Also: monitor corr/C05cmd.c05_refusal_ok (a host-in-use refusal needs a real conflict in the commanded table, a success needs none); "
           "link theorems props/C05cmd.v and props/C05refusal.v (on every model history every host-in-use refusal has a real conflict in the "
           "commanded table and every successful deploy has none; refuted for the pinned variant).",
    "C06": "Also: commands that fail because another command got in between, under the real scheduler (harness/c06_race_test.go): the failed "
           "command's targets are no longer probed and the targets the table still holds still are.",
    "C08": "Also: custom error pages replaced in place between deploys - model/Pages.v, theorems props/C08pages.v (the page is that of the "
           "service's latest deploy, a stop holds across redeploys), correspondence corr/C08pages.c08_pages_bad on directed and random histories; "
           "many answers at once and requests held by a pause when two stops arrive together, under the real scheduler "
           "(harness/c08_race_test.go), judged by corr/C08held.c08_held_bad.",
    "C09": "Also: monitors corr/C09rot.c09_excl_ok (a failing result applied while the target is in the rotation is followed by a rebuild without it) "
           "and c09_handoff_ok (a picked target takes the request or refuses it as draining before the answer); targets that refuse connections "
           "between two checks; link theorems props/C09excl.v (M5lb accepted => c09_excl_ok under c09_excl_side; M5full accepted => "
           "c09_handoff_ok); the acceptor's probe rule was tightened (reported previous state = model state); source-translation tie as for C01.",
    "C10": "Also: health changes of a side (corr/C10health.v, props/C10health.v) and the same decisions made by 8 goroutines at once.",
    "C11": "Also: a snapshot taken during an outage, a wildcard-TLS root service beside a sub-path service; the held time of a request is compared "
           "between the run with and the run without the restart; monitor corr/C11step.c11_restart_step_ok (the requests right after "
           "the restart are answered as the same requests right before it; link theorem props/C11step.v); a slow first probe after the restart.",
    "C12": "Also: the state file is read at every file-system step of a restart (corr/C12fault.v); bursts of overlapping commands with long "
           "snapshots and inert hooks (file vs configuration in force after every round); the built binary restarted on a large saved state "
           "with a client command sent the moment the command socket exists.",
    "C14": "Also: the target's own Content-Type spellings (event streams with sloppy parameters, near misses), decided by "
           "corr/C14corr.event_stream_of on the string.",
    "C16": "Also: the ladder of model/Seq.v serve (HTTPS redirect, TLS refusal, then gate and balancer) is proved equal to "
           "serviceRequestWithTarget / shouldRedirectToHTTPS as regenerated from service.go on every run (harness/gofacts, "
           "coq/corr/GenTie.v.in: gen_service_ladder_is_serve).",
    "C15": "Also: clients that are gone when their error page is written (nothing of an undeliverable page may reach a later client); services "
           "with custom pages for some statuses only; the model's classification is proved equal to the if-chain of handleProxyError as "
           "regenerated from target.go on every run (harness/gofacts, coq/corr/GenTie.v.in: gen_handle_proxy_error_is_classify).",
}
for pid, extra in LATE.items():
    CHECKS[pid]["text"] = CHECKS[pid]["text"].rstrip() + " " + extra

for pid in sorted(CHECKS):
    c = CHECKS[pid]
    m["checks"].append({
        "property_id": pid, "quick_cmd": "./check %s quick" % pid, "thorough_cmd": "./check %s thorough" % pid,
        "evidence_file": "evidence/%s.json" % pid, "engine": "coq-model",
        "level_claimed": {"category": "proof", "text": c["text"], "design_ref": "DESIGN.md " + c["ref"]},
        "level_note": COMMON_NOTE + c["note"], "technique": c["technique"]})
json.dump(m, open(os.path.join(V, "MANIFEST.json"), "w"), indent=1)
print("claimed:", sorted(CHECKS), "pending:", sorted(PENDING))
