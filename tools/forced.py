"""Hand-forced schedules that exhibit the recorded findings D2 / D3 on the real code."""
import m5

H, SEC = m5.H, m5.SEC


def dep(cid, targets, asyn=False, drain=3 * SEC, name=b"web", host=b"a.example.com"):
    return {"op": "deploy", "id": cid, "async": asyn, "name": H(name), "hosts": [H(host)], "prefixes": [], "tls": False,
            "tls_redirect": False, "strip": True, "cert": "none", "pages": "none",
            "targets": [{"name": H(t), "probes": ["ok"]} for t in targets], "deploy_timeout": 5 * SEC, "drain_timeout": drain,
            "topts": {"interval": SEC, "timeout": 5 * SEC}}


def req(rid, beh="reply", asyn=True, host=b"a.example.com"):
    return {"op": "request", "id": rid, "async": asyn, "host": H(host), "uri": H(b"/x"), "behaviour": beh}


def d2_served_by_replaced():
    """request routed before the swap, released after the redeploy returned: served by the replaced target"""
    return {"steps": [dep("c1", [b"ta:80"]), {"op": "arm", "point": "req:routed", "n": 1}, req("r1"), dep("c2", [b"tb:80"]),
                      {"op": "release", "point": "req:routed", "who": ""}, {"op": "sleep", "ns": SEC}]}


def d2_refused_during_redeploy():
    """request routed before the swap, released while the replaced target drains: 503"""
    return {"steps": [dep("c1", [b"ta:80"]), req("r90", "hang"), {"op": "arm", "point": "req:routed", "n": 1}, req("r1"),
                      dep("c2", [b"tb:80"], asyn=True), {"op": "sleep", "ns": SEC // 2},
                      {"op": "release", "point": "req:routed", "who": ""}, {"op": "sleep", "ns": 5 * SEC}]}


def d3_refused_by_pause():
    """request past the gate, then pause drains: 503"""
    return {"steps": [dep("c1", [b"ta:80"]), req("r90", "hang"), {"op": "arm", "point": "req:gate-passed", "n": 1}, req("r1"),
                      {"op": "pause", "id": "c2", "async": True, "name": H(b"web"), "fail_after": 10 * SEC, "drain_timeout": 3 * SEC},
                      {"op": "sleep", "ns": SEC // 2}, {"op": "release", "point": "req:gate-passed", "who": ""},
                      {"op": "sleep", "ns": 5 * SEC}]}


def d3_served_while_paused():
    """request past the gate, pause returns (nothing in flight), request then served while paused"""
    return {"steps": [dep("c1", [b"ta:80"]), {"op": "arm", "point": "req:gate-passed", "n": 1}, req("r1"),
                      {"op": "pause", "id": "c2", "name": H(b"web"), "fail_after": 10 * SEC, "drain_timeout": 3 * SEC},
                      {"op": "release", "point": "req:gate-passed", "who": ""}, {"op": "sleep", "ns": SEC},
                      {"op": "resume", "id": "c3", "name": H(b"web")}, {"op": "sleep", "ns": SEC}]}


def deploy_waits_for_rotation():
    """the deploy goroutine is held between creating the balancer and waiting on it, the probe goroutine between applying
    its first successful result and rebuilding the rotation: the wait must not succeed before the rotation holds the target"""
    return {"steps": [dep("c1", [b"ta:80"]),
                      {"op": "arm", "point": "deploy:lb-created", "n": 1}, {"op": "arm", "point": "probe:applied", "n": 1},
                      dep("c2", [b"tb:80"], asyn=True), {"op": "settle"},
                      {"op": "release", "point": "deploy:lb-created", "who": ""}, {"op": "sleep", "ns": SEC // 10},
                      req("r1"), req("r2"), {"op": "sleep", "ns": SEC // 10},
                      {"op": "release", "point": "probe:applied", "who": ""}, {"op": "sleep", "ns": 2 * SEC},
                      req("r3"), {"op": "sleep", "ns": SEC}]}


def pause_drains_stopped_rollout():
    """a request in flight on a rollout target after `rollout stop`: pause must still wait for it / cut it off"""
    rd = {"op": "rollout_deploy", "id": "c2", "name": H(b"web"), "targets": [{"name": H(b"tr:80"), "probes": ["ok"]}],
          "deploy_timeout": 5 * SEC, "drain_timeout": SEC}
    rs = {"op": "rollout_set", "id": "c3", "name": H(b"web"), "pct": 100, "allow": []}
    r = dict(req("r1", "delay:%d" % (2 * SEC)), headers=[[H(b"Cookie"), H(b"kamal-rollout=alice")]])
    return {"steps": [dep("c1", [b"ta:80"]), rd, rs, r, {"op": "sleep", "ns": SEC // 10},
                      {"op": "rollout_stop", "id": "c4", "name": H(b"web")},
                      {"op": "pause", "id": "c5", "name": H(b"web"), "fail_after": 10 * SEC, "drain_timeout": 5 * SEC},
                      {"op": "sleep", "ns": 3 * SEC}, {"op": "resume", "id": "c6", "name": H(b"web")}, {"op": "sleep", "ns": SEC}]}


def drain_grants_the_drain_timeout():
    """deploy timeout shorter than the drain timeout; a request in flight longer than the former and shorter than the
    latter must run to completion"""
    d2 = dep("c2", [b"tb:80"], drain=5 * SEC)
    d2["deploy_timeout"] = SEC
    return {"steps": [dep("c1", [b"ta:80"]), req("r1", "delay:%d" % (3 * SEC)), {"op": "sleep", "ns": SEC // 10}, d2,
                      {"op": "sleep", "ns": 4 * SEC}]}


def drain_covers_unhealthy_targets():
    """a request is in flight on a target that has since failed a probe (out of rotation): deploy / pause must still drain
    that target — wait for the request or cut it off at the deadline"""
    flap = {"op": "probe_script", "targets": [{"name": H(b"ta:80"), "probes": ["refused"]}]}
    return {"steps": [dep("c1", [b"ta:80", b"tz:80"]), req("r1", "delay:%d" % (10 * SEC)), req("r2", "delay:%d" % (10 * SEC)),
                      flap, {"op": "sleep", "ns": 2 * SEC}, dep("c2", [b"tb:80"], drain=SEC), {"op": "sleep", "ns": 2 * SEC},
                      req("r3"), {"op": "sleep", "ns": 12 * SEC}]}


def pause_covers_unhealthy_targets():
    flap = {"op": "probe_script", "targets": [{"name": H(b"ta:80"), "probes": ["status:500"]}]}
    return {"steps": [dep("c1", [b"ta:80", b"tz:80"]), req("r1", "hang"), req("r2", "hang"), flap, {"op": "sleep", "ns": 2 * SEC},
                      {"op": "pause", "id": "c2", "name": H(b"web"), "fail_after": 10 * SEC, "drain_timeout": SEC},
                      {"op": "sleep", "ns": 3 * SEC}, {"op": "resume", "id": "c3", "name": H(b"web")}, {"op": "sleep", "ns": SEC}]}


def drain_cuts_connections_upgraded_during_the_drain():
    """an upgrade request is claimed before the drain begins, its 101 arrives while the target drains: the connection
    must be cut at the deadline like any other request still running"""
    return {"steps": [dep("c1", [b"ta:80"]), req("r1", "upgrade:%d" % (SEC // 2)), req("r2", "upgrade"),
                      {"op": "sleep", "ns": SEC // 10}, dep("c2", [b"tb:80"], drain=2 * SEC), {"op": "sleep", "ns": 3 * SEC},
                      req("r3"), {"op": "sleep", "ns": SEC}]}


def stale_probe_result_after_the_deploy():
    """the new target's first probe is answered late and negatively, the second at once and positively; requests arrive
    after the deploy, around the moment the late answer comes in"""
    d2 = dep("c2", [b"tb:80"], asyn=True)
    d2["targets"][0]["probes"] = ["slow:%d:500" % (3 * SEC // 2), "ok"]
    return {"steps": [dep("c1", [b"ta:80"]), d2, {"op": "sleep", "ns": 16 * SEC // 10}, req("r1"), {"op": "sleep", "ns": SEC // 5},
                      req("r2"), {"op": "sleep", "ns": SEC // 10}, req("r3"), {"op": "sleep", "ns": 3 * SEC}, req("r4")]}


def pause_after_stop_still_holds(first_pause=False):
    """stop, then pause WITHOUT a resume in between (optionally pause, stop, pause): the second command's gate must hold
    the requests that arrive afterwards - nothing reaches the drained targets until the resume"""
    pre = [{"op": "pause", "id": "c2", "name": H(b"web"), "fail_after": 10 * SEC, "drain_timeout": SEC}] if first_pause else []
    return {"steps": [dep("c1", [b"ta:80"])] + pre + [
        {"op": "stop", "id": "c3", "name": H(b"web"), "msg": H(b"stopped"), "drain_timeout": SEC}, {"op": "sleep", "ns": SEC},
        {"op": "pause", "id": "c4", "name": H(b"web"), "fail_after": 2 * SEC, "drain_timeout": SEC}, {"op": "sleep", "ns": SEC // 10},
        req("r1"), {"op": "sleep", "ns": SEC}, req("r2"), {"op": "sleep", "ns": 3 * SEC},
        {"op": "resume", "id": "c5", "name": H(b"web")}, req("r3"), {"op": "sleep", "ns": SEC}]}


def rollout_redeploy_grants_the_drain_timeout(deploy_timeout=SEC, drain_timeout=5 * SEC):
    """a second `rollout deploy` replaces rollout targets that have a request in flight: the replaced rollout balancer
    must be drained with the command's DRAIN timeout (not its deploy timeout)"""
    rd = lambda cid, t: {"op": "rollout_deploy", "id": cid, "name": H(b"web"), "targets": [{"name": H(t), "probes": ["ok"]}],
                         "deploy_timeout": deploy_timeout, "drain_timeout": drain_timeout}
    rs = {"op": "rollout_set", "id": "c3", "name": H(b"web"), "pct": 100, "allow": []}
    r = dict(req("r1", "delay:%d" % (3 * SEC)), headers=[[H(b"Cookie"), H(b"kamal-rollout=alice")]])
    return {"steps": [dep("c1", [b"ta:80"]), rd("c2", b"tr:80"), rs, r, {"op": "sleep", "ns": SEC // 10}, rd("c4", b"ts:80"),
                      {"op": "sleep", "ns": 6 * SEC}]}


def record_of_an_ended_request_is_not_the_new_one():
    """two requests in flight on the old target when its drain begins: one ends early, the other keeps the drain open until
    the deadline; a request that arrives meanwhile is served by the NEW target and is still running when the old drain ends
    ("cancel the rest"): it must not be touched by that drain"""
    return {"steps": [dep("c1", [b"ta:80"]), req("r1", "delay:%d" % SEC), req("r2", "delay:%d" % (8 * SEC)), {"op": "sleep", "ns": SEC // 10},
                      dep("c2", [b"tb:80"], asyn=True, drain=3 * SEC), {"op": "sleep", "ns": SEC + SEC // 2},
                      req("r3", "delay:%d" % (4 * SEC)), req("r4", "stream:%d" % (4 * SEC)), {"op": "sleep", "ns": 6 * SEC}]}


def streamed_response_runs_on_while_draining():
    """a streamed response (no Content-Length) whose first part is with the client when the drain begins and whose rest
    arrives well inside the drain timeout must reach the client complete"""
    return {"steps": [dep("c1", [b"ta:80"]), req("r1", "stream:%d" % (2 * SEC)), req("r2", "stream:%d" % (SEC // 2)),
                      {"op": "sleep", "ns": SEC // 10}, dep("c2", [b"tb:80"], asyn=True, drain=5 * SEC), {"op": "sleep", "ns": 6 * SEC}]}


def stop_without_message_fails_the_held_requests():
    """requests held by a pause, then `stop` with the EMPTY (default) message: the held requests are answered 503, none
    reaches the targets the stop drains"""
    return {"steps": [dep("c1", [b"ta:80"]),
                      {"op": "pause", "id": "c2", "name": H(b"web"), "fail_after": 20 * SEC, "drain_timeout": SEC}, {"op": "sleep", "ns": SEC // 10},
                      req("r1"), req("r2"), req("r3"), {"op": "sleep", "ns": SEC},
                      {"op": "stop", "id": "c3", "name": H(b"web"), "msg": H(b""), "drain_timeout": SEC}, {"op": "sleep", "ns": SEC},
                      req("r4"), {"op": "sleep", "ns": SEC}, {"op": "resume", "id": "c4", "name": H(b"web")}, req("r5"), {"op": "sleep", "ns": SEC}]}


def redeploy_of_a_sub_path_service_keeps_the_tls_policy():
    """a TLS root-path service and a sub-path service on the same host; the sub-path service is redeployed with unchanged
    options: HTTPS requests for it must go on being answered by its (new) targets"""
    web = dict(dep("c1", [b"ta:80"], name=b"web"), tls=True, cert="good")
    api = lambda cid, t: dict(dep(cid, [t], name=b"api"), prefixes=[H(b"/api")], strip=False)
    rq = lambda rid: dict(req(rid), uri=H(b"/api/x"), tls=True)
    return {"steps": [web, api("c2", b"tb:80"), rq("r1"), {"op": "sleep", "ns": SEC // 10}, api("c3", b"tc:80"), rq("r2"),
                      {"op": "sleep", "ns": SEC}, rq("r3"), dict(req("r4"), tls=True), {"op": "sleep", "ns": SEC}]}


def rollout_redeploy_keeps_serving_the_rollout_group_while_it_waits():
    """a split is in force (every cookie value included); the rollout targets are redeployed and the new ones take a while to
    answer their first probe: requests of the rollout group that arrive during the wait are answered by the OLD rollout
    targets (healthy, still in service), never by the proxy itself"""
    rd = lambda cid, t, asyn, probes: {"op": "rollout_deploy", "id": cid, "async": asyn, "name": H(b"web"),
                                       "targets": [{"name": H(t), "probes": probes}], "deploy_timeout": 5 * SEC, "drain_timeout": 3 * SEC}
    rs = {"op": "rollout_set", "id": "c3", "name": H(b"web"), "pct": 100, "allow": []}
    r = lambda rid: dict(req(rid), headers=[[H(b"Cookie"), H(b"kamal-rollout=alice")]])
    return {"steps": [dep("c1", [b"ta:80"]), rd("c2", b"tr:80", False, ["ok"]), rs, r("r1"), {"op": "sleep", "ns": SEC // 10},
                      rd("c4", b"ts:80", True, ["slow:%d:200" % (2 * SEC)]), {"op": "sleep", "ns": SEC // 2}, r("r2"), req("r3"),
                      {"op": "sleep", "ns": SEC}, r("r4"), {"op": "sleep", "ns": 2 * SEC}, r("r5"), {"op": "sleep", "ns": 4 * SEC}, r("r6")]}


def probe_slower_than_the_interval_but_within_its_timeout():
    """after the redeploy the new target answers one of its later probes slowly: longer than the probe interval (1 s), well within
    the probe timeout (5 s) - it stays healthy and every request is answered by it"""
    d2 = dep("c2", [b"tb:80"])
    d2["targets"][0]["probes"] = ["ok", "slow:%d:200" % (3 * SEC // 2), "slow:%d:200" % (3 * SEC // 2), "ok"]
    steps = [dep("c1", [b"ta:80"]), d2]
    for k in range(18):
        steps += [{"op": "sleep", "ns": SEC // 2}, req("r%d" % (k + 1))]
    steps.append({"op": "sleep", "ns": SEC})
    return {"steps": steps}


def redeploy_with_custom_error_pages():
    """a service with custom error pages (no TLS) redeployed twice with the same pages directory: requests during the drains and
    afterwards are answered by the new targets"""
    d = lambda cid, t, asyn=False: dict(dep(cid, [t], asyn=asyn), pages="good")
    return {"steps": [d("c1", b"ta:80"), req("r1"), req("r90", "delay:%d" % (2 * SEC)), {"op": "sleep", "ns": SEC // 10},
                      d("c2", b"tb:80", True), {"op": "sleep", "ns": SEC // 2}, req("r2"), req("r3"), {"op": "sleep", "ns": 3 * SEC}, req("r4"),
                      d("c3", b"tc:80"), req("r5"), {"op": "sleep", "ns": SEC}, req("r6")]}


def drain_outlasts_the_target_timeout(stop=False):
    """target timeout (it bounds the wait for response HEADERS) far below the drain timeout; a response that began in time is
    still streaming when the redeploy (or pause) drains its target: it completes within the drain timeout"""
    d1 = dep("c1", [b"ta:80"])
    d1["topts"] = dict(d1["topts"], response_timeout=SEC // 4)
    d2 = dep("c2", [b"tb:80"], asyn=True, drain=5 * SEC)
    d2["topts"] = dict(d2["topts"], response_timeout=SEC // 4)
    cmd = {"op": "pause", "id": "c2", "async": True, "name": H(b"web"), "fail_after": 10 * SEC, "drain_timeout": 5 * SEC} if stop else d2
    tail = [{"op": "resume", "id": "c3", "name": H(b"web")}] if stop else []
    return {"steps": [d1, req("r1", "stream:%d" % (2 * SEC)), req("r2", "delay:%d" % (3 * SEC // 2)), {"op": "sleep", "ns": SEC // 10}, cmd,
                      {"op": "sleep", "ns": 4 * SEC}] + tail + [req("r3"), {"op": "sleep", "ns": SEC}]}


def redeploy_of_the_same_target_names(upgraded=False):
    """the service is redeployed with the SAME target names (e.g. only its options change): the deploy builds new target objects
    all the same, so the replaced ones are drained like any others - a request in flight on them is waited for (it ends within
    the drain timeout), an upgraded connection is closed, before the command returns"""
    d2 = dep("c2", [b"ta:80", b"tb:80"], drain=5 * SEC)
    return {"steps": [dep("c1", [b"ta:80", b"tb:80"]), req("r1", "upgrade" if upgraded else "delay:%d" % (2 * SEC)),
                      req("r2", "delay:%d" % (3 * SEC // 2)), {"op": "sleep", "ns": SEC // 10}, d2, req("r3"), {"op": "sleep", "ns": 3 * SEC}]}
