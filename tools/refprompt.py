#!/usr/bin/env python3
"""Prints the prompt for an independent 'harmless rewrite' sub-agent for one property and creates its scratch
worktree: behaviour-preserving changes on which the checks must stay quiet.  usage: refprompt.py C04"""
import json, subprocess, sys, os
pid = sys.argv[1]
p = [json.loads(l) for l in open('/verif/properties.jsonl') if json.loads(l)['id'] == pid][0]
wt = "/var/tmp/ref-%s" % pid
out = "/var/tmp/ref-%s-out" % pid
if not os.path.exists(wt):
    subprocess.run(["git", "-C", "/repo", "worktree", "add", "-q", "--detach", wt, "HEAD"], check=True)
os.makedirs(out, exist_ok=True)
print(f"""You are a maintainer of the Go project kamal-proxy (a small HTTP reverse proxy for zero-downtime deploys) doing routine clean-up work. Your own scratch git worktree of the repository is at {wt} (work ONLY there and in {out}; do not read or touch /verif or /repo or any other directory under /var/tmp — they are off limits and looking there would invalidate the exercise).

A verification tool watches the following property of the code. Your job is to produce changes that a verification tool might be confused by but that are in fact HARMLESS: the property still holds after them, and the externally observable behaviour of the proxy is unchanged.

TITLE: {p['title']}
STATEMENT: {p['statement']}
FOR ALL: {p['quantifier']['text']}
CODE INVOLVED: {', '.join(p['anchors']['files'])}

Produce THREE different changes (three independent patches, each against the pristine worktree HEAD) to the code involved in this property, each of which:
 1. is a REALISTIC maintenance change of 5-60 lines that a reviewer would accept: e.g. extracting or inlining a helper, renaming identifiers, reordering independent statements, replacing a loop by an equivalent one, changing an internal data structure for an equivalent one, restructuring if/else or early returns, rewording log messages or comments, changing how a lock is taken to an equivalent form (e.g. defer vs explicit unlock, without changing what is protected), simplifying error wrapping while keeping which error is returned;
 2. provably preserves the property above and all behaviour visible to clients, operators and the state file (same responses, same statuses, same headers, same state-file contents, same ordering and blocking behaviour of commands, no new data race). Be conservative: if in doubt whether something is observable, do not change it;
 3. still compiles (`go build ./... && go build -tags verif ./...`) and the project's existing test suite still passes: `cd {wt} && GOFLAGS=-mod=mod GOPROXY=off go test -vet=off -count=1 ./...` (one existing test, TestTarget_CancelledRequestsHaveStatus499, is known to be flaky on a loaded machine — ignore that one only). Do not set GOTOOLCHAIN or GOSUMDB; plain `go` selects the right toolchain offline.
 The three changes should touch different functions / use different kinds of rewrite. At least one of them should touch the most central function for the property.

Lines calling verifEvent/verifYield/verifTargetCreated in the code are instrumentation hooks (no-ops in normal builds). Keep each such call, with the same arguments, at the same logical point of the control flow (e.g. if you move the statement it follows into a helper, move the hook with it).

Deliver in {out}/: `1/patch.diff` (output of `git diff`), `1/README.md` (what was changed and a short argument why behaviour is unchanged); same under `2/` and `3/`. Do NOT use `git stash` (the stash is shared between all worktrees of the repository and other engineers work in sibling worktrees): save your change with `git diff > file`, undo with `git checkout -- .`, re-apply with `git apply file`. Leave the worktree clean at the end (`git -C {wt} checkout -- . && git -C {wt} clean -fdq`). Finish with a two-line summary per change.""")
