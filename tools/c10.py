"""C10 — rollout split: correspondence of model/Rollout.v with
rollout_controller.go / service.go (through the real Router request path) and
the proof obligations of props/C10.v."""
import random
import re

from vlib import *

M32 = 0xFFFFFFFF
FNV_PRIME = 16777619
FNV_PRIME_INV = pow(FNV_PRIME, -1, 1 << 32)
COOKIE = b"kamal-rollout"

# bytes a cookie value may carry (validCookieValueByte), without the space
VALUE_ALPHA = [b for b in range(0x21, 0x7f) if b not in (0x22, 0x3b, 0x5c)]


def fnv1a(bs, h=2166136261):
    for b in bs:
        h = ((h ^ b) * FNV_PRIME) & M32
    return h


def T(p):
    if p < 0:
        return -1
    if p > 100:
        return M32
    return p * M32 // 100


class Preimages:
    """Cookie values with a prescribed FNV-1a hash: meet in the middle over
    six bytes of the value alphabet (three forward from a seed-dependent
    prefix in a table, three backward from the target by inverting the
    multiplication modulo 2^32)."""

    def __init__(self, rnd, prefix=b""):
        self.alpha = list(VALUE_ALPHA)
        rnd.shuffle(self.alpha)
        self.prefix = prefix
        level = {fnv1a(prefix): b""}
        for _ in range(3):
            nxt = {}
            for h, s in level.items():
                for b in self.alpha:
                    nxt[((h ^ b) * FNV_PRIME) & M32] = s + bytes([b])
            level = nxt
        self.fwd = level

    def find(self, target):
        fwd, al = self.fwd, self.alpha
        u0 = (target * FNV_PRIME_INV) & M32
        for b6 in al:
            u6 = ((u0 ^ b6) * FNV_PRIME_INV) & M32
            for b5 in al:
                u5 = ((u6 ^ b5) * FNV_PRIME_INV) & M32
                for b4 in al:
                    s = fwd.get(u5 ^ b4)
                    if s is not None:
                        v = self.prefix + s + bytes([b4, b5, b6])
                        assert fnv1a(v) == target
                        return v
        raise RuntimeError("no preimage found for %d" % target)


# ------------------------------------------------------------ generators ----

def rand_value(rnd):
    k = rnd.random()
    if k < 0.3:
        return str(rnd.randint(0, 10 ** rnd.randint(1, 9))).encode()
    if k < 0.5:
        return ("%08x-%04x" % (rnd.getrandbits(32), rnd.getrandbits(16))).encode()
    if k < 0.6:
        return bytes(rnd.choice(VALUE_ALPHA + [0x20]) for _ in range(rnd.randint(1, 4)))
    return bytes(rnd.choice(VALUE_ALPHA) for _ in range(rnd.randint(1, 14)))


def other_cookie(rnd):
    name = rnd.choice([b"session", b"a", b"_ga", b"kamal", b"rollout", b"kamal-rollout2", b"xkamal-rollout",
                       b"kamal_rollout", b"KAMAL-ROLLOUT", b"Kamal-Rollout"])
    return name + b"=" + rand_value(rnd)


def ws(rnd):
    return rnd.choice([b"", b"", b" ", b"  ", b"\t", b" \t "])


def gen_request(rnd, allow, earlier):
    """One request: (kind, [Cookie header values])."""
    k = rnd.random()
    val = rand_value(rnd)
    if allow and rnd.random() < 0.2:
        val = rnd.choice(allow)
    if earlier and rnd.random() < 0.25:
        val = rnd.choice(earlier)          # same value in another shape: stickiness
    if k < 0.06:
        return "none", []
    if k < 0.12:
        return "other-only", [b"; ".join(other_cookie(rnd) for _ in range(rnd.randint(1, 3)))]
    if k < 0.32:
        return "plain", [COOKIE + b"=" + val]
    if k < 0.47:
        parts = [other_cookie(rnd) for _ in range(rnd.randint(0, 2))] + [COOKIE + b"=" + val] + \
                [other_cookie(rnd) for _ in range(rnd.randint(0, 2))]
        return "among", [b"; ".join(parts)]
    if k < 0.55:
        return "quoted", [COOKIE + b"=\"" + val + b"\""]
    if k < 0.65:
        lines = [b"; ".join(other_cookie(rnd) for _ in range(rnd.randint(0, 2))) for _ in range(rnd.randint(1, 3))]
        pos = rnd.randint(0, len(lines))
        lines.insert(pos, COOKIE + b"=" + val)
        if rnd.random() < 0.5:
            lines.append(COOKIE + b"=" + rand_value(rnd))      # a later line loses
        return "multi-line", lines
    if k < 0.72:
        return "dup", [COOKIE + b"=" + val + b"; " + COOKIE + b"=" + rand_value(rnd)]
    if k < 0.84:
        line = ws(rnd) + ws(rnd).join([COOKIE, b"=" + rnd.choice([b"", b"", b" "]) + val]) + ws(rnd)
        if rnd.random() < 0.5:
            line = ws(rnd) + other_cookie(rnd) + ws(rnd) + b";" + line + b";" + ws(rnd)
        return "spaces", [line]
    if k < 0.92:
        return "empty", [rnd.choice([COOKIE + b"=", COOKIE + b"=\"\"", COOKIE, COOKIE + b"= ", COOKIE + b"=;" + COOKIE + b"=" + val,
                                     COOKIE + b"; " + COOKIE + b"=" + val])]
    return "multi-eq", [COOKIE + b"=" + val + b"=" + rand_value(rnd)]


BAD_BYTES = [0x00, 0x01, 0x0a, 0x0d, 0x09, 0x1f, 0x7f, 0x80, 0xc3, 0xff, 0x22, 0x5c, 0x2c, 0x20]


def gen_malformed(rnd, allow):
    k = rnd.random()
    val = rand_value(rnd)
    if allow and rnd.random() < 0.2:
        val = rnd.choice(allow)
    later = rnd.choice([[], [COOKIE + b"=" + rand_value(rnd)]])
    if k < 0.25:
        b = rnd.choice(BAD_BYTES)
        pos = rnd.randint(0, len(val))
        bad = val[:pos] + bytes([b]) + val[pos:]
        shape = rnd.choice(["line", "part"])
        if shape == "line":
            return "bad-byte-%02x" % b, [COOKIE + b"=" + bad] + later
        return "bad-byte-%02x" % b, [COOKIE + b"=" + bad + b"; " + COOKIE + b"=" + rand_value(rnd)]
    if k < 0.37:
        name = rnd.choice([b"Kamal-Rollout", b"KAMAL-ROLLOUT", b"kamal-rollouT", b"kamal-rollout2", b"xkamal-rollout",
                           b"kamal rollout", b"kamal-rollout\x00", b"kamal-rollout\xc3\xa9", b"kamal-rollout(", b"\"kamal-rollout\"",
                           b"kamal-rollout,", b"kamal-rollou"])
        return "bad-name", [name + b"=" + val] + later
    if k < 0.5:
        line = rnd.choice([b"", b" ", b";", b";;;", b"=", b"=" + val, b" = ", b"; =; ;", COOKIE, b";" + COOKIE + b";",
                           b"\t", b"==", COOKIE + b"==" + val, b"=" + COOKIE])
        return "degenerate", [line] + later
    if k < 0.62:
        q = rnd.choice([b"\"" + val, val + b"\"", b"\"", b"\"\"\"", b"\"" + val + b"\"\"", b"\"\"" + val + b"\"\"",
                        b"\" " + val + b" \"", b"'" + val + b"'"])
        return "quotes", [COOKIE + b"=" + q] + later
    if k < 0.8:
        n = rnd.randint(0, 30)
        junk = bytes(rnd.randrange(256) for _ in range(n))
        ins = COOKIE + b"=" + val
        pos = rnd.randint(0, n)
        sep = rnd.choice([b";", b"", b" ", b"; "])
        return "random-bytes", [junk[:pos] + sep + ins + sep + junk[pos:]] + later
    if k < 0.88:
        c = rnd.choice([b"\n", b"\r\n", b"\x00", b"\x0b"])
        return "ctl-around", [c + COOKIE + b"=" + val + c] + later
    if k < 0.94:
        long = bytes(rnd.choice(VALUE_ALPHA) for _ in range(rnd.choice([300, 1000])))
        return "long", [COOKIE + b"=" + long]
    return "many-lines", [other_cookie(rnd) for _ in range(rnd.randint(5, 12))] + [COOKIE + b"=" + val] + later


PCT_ODD = [-1, -5, -100, -10000, 101, 150, 1000, 10000, 10001, -10001, 2 ** 31 - 1, -2 ** 31, 2 ** 53 + 1,
           2 ** 63 - 1, -2 ** 63]


def gen_allow(rnd, values):
    k = rnd.random()
    if k < 0.35:
        return []
    out = [rand_value(rnd) for _ in range(rnd.randint(0, 3))]
    if values:
        out += [rnd.choice(values) for _ in range(rnd.randint(1, 2))]
    if rnd.random() < 0.2:
        out.append(rnd.choice([b"", b" ", b"\xff", b"a;b", b"\"q\""]))
    rnd.shuffle(out)
    return out


def split_case(stream, allow, pcts, reqs, kinds):
    return {"kind": "split", "stream": stream, "allow": [a.hex() for a in allow], "pcts": [str(p) for p in pcts],
            "reqs": [[l.hex() for l in r] for r in reqs], "_kinds": kinds}


def gen_split_cases(rnd, tier, pre):
    cases = []
    # fixed boundary points first: hash 0 and 2^32-1 at the ends of the range
    v0, vmax = pre.find(0), pre.find(M32)
    cases.append(split_case("boundary", [], [0, 1, 99, 100, -1, 101],
                            [[COOKIE + b"=" + v0], [COOKIE + b"=" + vmax], [COOKIE + b"=\"" + v0 + b"\""], []],
                            ["preimage-0", "preimage-max", "preimage-0", "none"]))
    # preimages of T p and T p + 1 for every percentage, ten percentages per case
    allp = list(range(0, 101))
    for g in range(0, 101, 10):
        ps = allp[g:g + 10]
        reqs, kinds = [], []
        for p in ps:
            reqs.append([COOKIE + b"=" + pre.find(T(p))])
            kinds.append("preimage-T")
            if T(p) + 1 <= M32:
                reqs.append([rnd.choice([b"", b"a=b; "]) + COOKIE + b"=" + pre.find(T(p) + 1)])
                kinds.append("preimage-T+1")
        extra = [q for q in (ps[0] - 1, ps[-1] + 1) if 0 <= q <= 100]
        cases.append(split_case("preimage", [], ps + extra, reqs, kinds))
    # every percentage 0..100 over a set of random values
    n = 10 if tier == "quick" else 60
    reqs = [[COOKIE + b"=" + rand_value(rnd)] for _ in range(n)]
    cases.append(split_case("sweep", [], allp, reqs, ["plain"] * n))
    # the same decisions made by several goroutines at once (a client stays on its side whatever else is being decided)
    creqs = [[COOKIE + b"=" + rand_value(rnd)] for _ in range(24)] + [[COOKIE + b"=" + pre.find(T(p))] for p in (10, 50, 90)]
    cc = split_case("concurrent", [], [50, 10, 90, 33], creqs, ["plain"] * len(creqs))
    cc["concurrent"] = True
    cases.append(cc)
    # structured and malformed streams
    n_struct, n_mal, nreq = (60, 40, 16) if tier == "quick" else (700, 450, 24)
    for stream, count in (("structured", n_struct), ("malformed", n_mal)):
        for _ in range(count):
            pool = [rand_value(rnd) for _ in range(4)]
            allow = gen_allow(rnd, pool)
            reqs, kinds, earlier = [], [], list(pool)
            for _ in range(nreq):
                if stream == "structured" or rnd.random() < 0.2:
                    k, lines = gen_request(rnd, allow, earlier)
                else:
                    k, lines = gen_malformed(rnd, allow)
                reqs.append(lines)
                kinds.append(k)
            pcts = sorted(rnd.sample(range(0, 101), 3)) + [rnd.choice([0, 100, 1, 99, 50])]
            if rnd.random() < 0.5:
                pcts.append(rnd.choice(PCT_ODD))
            rnd.shuffle(pcts)
            cases.append(split_case(stream, allow, pcts, reqs, kinds))
    return cases


HIST_VALUES = [b"alice", b"bob", b"1", b"42", b"user-7", b"zz9"]


def gen_hist(rnd, restart_set=False):
    ids = list(range(10))
    rnd.shuffle(ids)
    init = ids.pop()
    ops = []
    n = rnd.randint(4, 14)

    def request():
        k = rnd.random()
        if k < 0.25:
            return {"op": "request", "lines": []}
        if k < 0.35:
            return {"op": "request", "lines": [other_cookie(rnd).hex()]}
        v = rnd.choice(HIST_VALUES)
        return {"op": "request", "lines": [(rnd.choice([b"", b"a=1; "]) + COOKIE + b"=" + v).hex()]}

    def setop():
        return {"op": "set", "pct": str(rnd.choice([0, 100, 100, 50, 20, 80, rnd.randint(0, 100), -1, 101])),
                "allow": [v.hex() for v in rnd.sample(HIST_VALUES, rnd.randint(0, 2))]}

    if restart_set:
        # restart while no rollout targets exist, then `rollout set` (must be rejected) and opted-in requests
        pre = [request() for _ in range(rnd.randint(0, 2))]
        if rnd.random() < 0.5:
            pre.append(setop())
        ops = pre + [{"op": "restart"}, setop(), request(), request(),
                     {"op": "request", "lines": [(COOKIE + b"=alice").hex()]}]
        ops[len(pre) + 1]["pct"] = "100"
        return {"kind": "hist", "stream": "hist-restart-set", "init": init, "ops": ops}
    for _ in range(n):
        k = rnd.random()
        if k < 0.38:
            ops.append(request())
        elif k < 0.5 and ids:
            ops.append({"op": "deploy", "id": ids.pop()})
        elif k < 0.65 and ids:
            ops.append({"op": "rollout_deploy", "id": ids.pop()})
        elif k < 0.82:
            ops.append(setop())
        elif k < 0.90:
            ops.append({"op": "stop"})
        elif k < 0.95:
            ops.append({"op": "restart"})
        else:
            # every target of one side fails its probe (later: passes again): the split decision does not look at health
            ops.append({"op": "health", "side": rnd.choice(["rollout", "rollout", "active"]), "healthy": rnd.random() < 0.3})
        if ops[-1]["op"] != "request" and rnd.random() < 0.7:
            ops.append(request())
    return {"kind": "hist", "stream": "hist", "init": init, "ops": ops}


def gen_cases(seed, tier):
    rnd = random.Random(seed)
    pre = Preimages(rnd, prefix=bytes(rnd.choice(VALUE_ALPHA) for _ in range(rnd.randint(0, 3))))
    cases = gen_split_cases(rnd, tier, pre)
    # props/C10.v c10_example_restart_then_set (finding D6 of the pinned tree, repaired by d6a34a4)
    cases.append({"kind": "hist", "stream": "hist-restart-set", "init": 0,
                  "ops": [{"op": "restart"}, {"op": "set", "pct": "100", "allow": []},
                          {"op": "request", "lines": [(COOKIE + b"=x").hex()]}]})
    # the split decision does not look at the health of either side: an included request whose rollout targets all fail their
    # probes gets the proxy's 503, it is not handed to the active targets (and the other way round)
    ck = lambda v: {"op": "request", "lines": [(COOKIE + b"=" + v).hex()]}
    for side, pct, allow in (("rollout", "100", []), ("rollout", "0", [b"alice".hex()]), ("active", "100", []), ("active", "50", [b"bob".hex()])):
        cases.append({"kind": "hist", "stream": "hist-health", "init": 1,
                      "ops": [{"op": "rollout_deploy", "id": 2}, {"op": "set", "pct": pct, "allow": allow}, ck(b"alice"), {"op": "request", "lines": []},
                              {"op": "health", "side": side, "healthy": False}, ck(b"alice"), ck(b"bob"), {"op": "request", "lines": []},
                              {"op": "health", "side": side, "healthy": True}, ck(b"alice"), {"op": "request", "lines": []},
                              {"op": "health", "side": side, "healthy": False}, {"op": "restart"}, ck(b"alice"), {"op": "request", "lines": []}]})
    # a split REPLACES the previous one, list included: a value that was on the earlier list and is neither on the new one nor
    # inside the new percentage goes back to the active targets (every value asked after every set)
    allv = [ck(v) for v in HIST_VALUES] + [{"op": "request", "lines": []}]
    for (l1, p2, l2) in (([b"alice"], "50", []), ([b"alice", b"bob"], "20", [b"bob"]), ([b"zz9"], "0", []), ([b"1", b"42"], "80", [b"user-7"]),
                         ([b"alice"], "0", [b""]), ([b"bob"], "100", [])):
        for p1 in ("0", "30"):
            cases.append({"kind": "hist", "stream": "hist-relist", "init": 1,
                          "ops": [{"op": "rollout_deploy", "id": 2}, {"op": "set", "pct": p1, "allow": [v.hex() for v in l1]}] + allv +
                                 [{"op": "set", "pct": p2, "allow": [v.hex() for v in l2]}] + allv +
                                 [{"op": "restart"}] + allv + [{"op": "set", "pct": p1, "allow": []}] + allv})
    nh, nrs = (80, 5) if tier == "quick" else (2000, 40)
    for _ in range(nh):
        cases.append(gen_hist(rnd))
    for _ in range(nrs):
        cases.append(gen_hist(rnd, restart_set=True))
    return cases


# ---------------------------------------------------------------- terms ----

def z_lit(n):
    return "(%d)%%Z" % n


def lines_lit(hexes):
    return list_lit([str_lit(bytes.fromhex(h)) for h in hexes])


def nl(xs):
    return "[" + ";".join("%d" % x for x in xs) + "]"


def case_term(c, o):
    if c["kind"] == "split":
        per = []
        for ps, po in zip(c["pcts"], o["per"]):
            state_ok = po.get("ctrl_in_state") and po.get("pct_back") == ps and re.fullmatch(r"-?\d+", po.get("floor") or "")
            floor = "(Some %s)" % z_lit(int(po["floor"])) if state_ok else "None"
            per.append("mkPobs %s %s %s %s" % (bool_lit(po["set"] == "ok"), floor, nl(po["lb"]), nl(po["served"])))
        return "CaseSplit %s %s %s %s" % (
            lines_lit(c["allow"]), list_lit([z_lit(int(p)) for p in c["pcts"]]),
            list_lit([lines_lit(r) for r in c["reqs"]]), list_lit(per))
    cmds, xs = [], []
    v2 = any(op["op"] == "health" for op in c["ops"])
    for op, ob in zip(c["ops"], o["obs"]):
        k = op["op"]
        if k == "health":
            cmds.append("HHealth %s %s" % (bool_lit(op["side"] == "rollout"), bool_lit(op["healthy"])))
            xs.append("XOk")
            continue
        if k == "deploy":
            cmds.append("HDeploy %d" % op["id"])
        elif k == "rollout_deploy":
            cmds.append("HRolloutDeploy %d" % op["id"])
        elif k == "set":
            cmds.append("HSet %s %s" % (z_lit(int(op["pct"])), lines_lit(op["allow"])))
        elif k == "stop":
            cmds.append("HStop")
        elif k == "restart":
            cmds.append("HRestart")
        else:
            cmds.append("HRequest %s" % lines_lit(op["lines"]))
        if k == "request":
            s = ob["served"]
            xs.append("XServed %d" % s if s >= 0 else "XStatus %d" % (0 if s == -1 else -s))
        else:
            xs.append({"ok": "XOk", "norollout": "XErrNoRollout"}.get(ob["res"], "XErrOther"))
    if v2:     # histories with health changes: corr/C10health.v (evaluated apart from the c10_case list)
        cmds = [x if x.startswith("HHealth") else "HPlain (%s)" % x for x in cmds]
        return "V2 (%d%%nat, %s, %s)" % (c["init"], list_lit(cmds), list_lit(xs))
    return "CaseHist %d %s %s" % (c["init"], list_lit(cmds), list_lit(xs))


def assumptions_by_theorem(prop_file, out):
    """Pair the `Print Assumptions` commands of props/<file> with the blocks coqc printed."""
    src = open(os.path.join(COQ, "props", prop_file)).read()
    names = re.findall(r"^Print Assumptions ([A-Za-z0-9_']+)\.", src, re.M)
    blocks = re.findall(r"^(Closed under the global context|Axioms:\n(?:(?!^Closed under|^Axioms:).*\n?)*)", out, re.M)
    res = {}
    for n, b in zip(names, blocks):
        if b.startswith("Closed"):
            res[n] = "closed under the global context"
        else:
            res[n] = sorted(set(re.findall(r"^([A-Za-z0-9_.']+)\s*(?:$|:)", b.split("\n", 1)[1], re.M)))
    return res if len(names) == len(blocks) else {"unparsed": out[-2000:]}


def run(tier, seed):
    res = Result("C10", tier, seed)
    work = Work("C10")
    try:
        ok, blog = coq_build(["props/C10.vo", "props/C10health.vo", "corr/C10corr.vo", "corr/C10health.vo"])
        proofs_ok, pa = proof_obligations(work, res, "C10.v", ok, blog)
        ob10 = dict(res.coverage)
        ok_h, pa_h = proof_obligations(work, res, "C10health.v", ok, blog)
        proofs_ok = proofs_ok and ok_h
        res.coverage.update({"obligations": ob10["obligations"] + res.coverage["obligations"], "discharged": ob10["discharged"] + res.coverage["discharged"],
                             "theorems": ob10["theorems"] + res.coverage["theorems"], "trusted_base": ob10["trusted_base"] + ["props/C10health.v: " + res.coverage["trusted_base"][1]]})
        cases = gen_cases(seed, tier)
        write_jsonl(work.path("cases.jsonl"), [{k: v for k, v in c.items() if not k.startswith("_")} for c in cases])
        rc, out = go_test(work, ["common_test.go", "c10_test.go"], "^TestVerifC10$",
                          {"VERIF_IN": work.path("cases.jsonl"), "VERIF_OUT": work.path("obs.jsonl")})
        harness_ok = rc == 0 and os.path.exists(work.path("obs.jsonl"))
        obs = read_jsonl(work.path("obs.jsonl")) if harness_ok else []
        if harness_ok and len(obs) != len(cases):
            harness_ok = False
        res.coverage["assumptions_by_theorem"] = assumptions_by_theorem("C10.v", pa)
        par_bad = [(j, po) for j, (c, o) in enumerate(zip(cases, obs)) if c.get("concurrent") for po in o.get("per", [])
                   if po.get("concurrent_mismatches", 0) > 0]
        res.coverage["concurrent_decisions"] = {"decisions": sum(po.get("concurrent_decisions", 0) for c, o in zip(cases, obs) if c.get("concurrent")
                                                                 for po in o.get("per", [])), "differing_from_the_sequential_decision": sum(po["concurrent_mismatches"] for _, po in par_bad)}
        failing = []
        if harness_ok and ok:
            jobs, cur, size, start = [], [], 0, 0
            v2_items = []
            for j in range(len(cases)):
                t = case_term(cases[j], obs[j])
                if t.startswith("V2 "):
                    v2_items.append((j, t[3:]))
                    t = "CaseHist 0 [] []"          # placeholder keeps the indices of the list aligned
                cur.append(t)
                size += len(t)
                if size > 150000 or len(cur) >= 40:
                    jobs.append((start, cur))
                    cur, size, start = [], 0, j + 1
            if cur:
                jobs.append((start, cur))
            from concurrent.futures import ThreadPoolExecutor

            def ev(job):
                s, terms = job
                body = ("Definition cases : list c10_case := %s.\n"
                        "Definition R := Eval vm_compute in failures cases.\n" % ("[\n" + ";\n".join(terms) + "]"))
                txt = coq_eval(work, "Cases_%d" % s,
                               "From KP Require Import model.Base model.Rollout corr.C10corr.\nLocal Open Scope N_scope.", body, "R")
                return s, txt
            with ThreadPoolExecutor(max_workers=16) as ex:
                for s, txt in ex.map(ev, jobs):
                    for (j, a, m) in parse_failures(txt):
                        failing.append((s + j, a, m))

            if v2_items:
                body = ("Definition xs : list (nat * list hcmd2 * list xobs) := [\n%s].\n"
                        "Definition R := Eval vm_compute in map (fun x => let '(i, c, o) := x in (hist_agree2 i c o, hist_monitor2 i c o)) xs.\n"
                        % ";\n".join(t for _, t in v2_items))
                txt = coq_eval(work, "Health", "From KP Require Import model.Base model.Rollout corr.C10corr corr.C10health.\n"
                                               "Local Open Scope N_scope.", body, "R")
                pairs = re.findall(r"\((true|false), (true|false)\)", txt)
                if len(pairs) != len(v2_items):
                    raise RuntimeError("unexpected health verdicts: " + txt[:300])
                for (j, _), (a, m) in zip(v2_items, pairs):
                    if a != "true" or m != "true":
                        failing.append((j, a == "true", m == "true"))
            res.coverage["histories_with_health_changes"] = len(v2_items)

        # ---- coverage: what was generated and where the decisions landed
        streams, kinds, ops = {}, {}, {}
        decisions = {"active": 0, "rollout": 0, "other": 0}
        served_codes = {"active": 0, "rollout": 0, "proxy-or-error": 0}
        pct_seen, n_dec, hist_out, set_results, lens = set(), 0, {}, {}, {"lines": {}, "value_bytes": {}}
        for c in cases:
            streams[c["stream"]] = streams.get(c["stream"], 0) + 1
            if c["kind"] == "split":
                for k in c["_kinds"]:
                    k = "bad-byte" if k.startswith("bad-byte") else k
                    kinds[k] = kinds.get(k, 0) + len(c["pcts"])
                for p in c["pcts"]:
                    pct_seen.add(int(p))
                for r in c["reqs"]:
                    b = "%d" % len(r) if len(r) < 3 else "3+"
                    lens["lines"][b] = lens["lines"].get(b, 0) + 1
                    tot = sum(len(x) // 2 for x in r)
                    b = "0" if tot == 0 else "1-20" if tot <= 20 else "21-60" if tot <= 60 else "61+"
                    lens["value_bytes"][b] = lens["value_bytes"].get(b, 0) + 1
            else:
                for op in c["ops"]:
                    ops[op["op"]] = ops.get(op["op"], 0) + 1
        for c, o in zip(cases, obs):
            if c["kind"] == "split":
                for po in o["per"]:
                    set_results[po["set"]] = set_results.get(po["set"], 0) + 1
                    for x in po["lb"]:
                        decisions[("active", "rollout", "other")[x]] += 1
                        n_dec += 1
                    for x in po["served"]:
                        served_codes[("active", "rollout", "proxy-or-error")[x]] += 1
            else:
                for op, ob in zip(c["ops"], o["obs"]):
                    key = (op["op"] + ":" + ob["res"].split(":")[0]) if "res" in ob else \
                          ("request:backend" if ob["served"] >= 0 else "request:status%d" % -ob["served"])
                    hist_out[key] = hist_out.get(key, 0) + 1
        n_req_hist = sum(1 for c in cases if c["kind"] == "hist" for op in c["ops"] if op["op"] == "request")
        distinct = len({json.dumps({k: v for k, v in c.items() if not k.startswith("_")}, sort_keys=True) for c in cases})
        res.coverage.update({
            "evaluations": n_dec + n_req_hist, "distinct_nontrivial": distinct,
            "rule": "one evaluation = one request decided by the real code (split cases: every request at every percentage of its "
                    "case; history cases: every request op); cases are distinct by their JSON",
            "input_distribution": {
                "cases_by_stream": streams, "request_kinds_x_percentages": kinds, "history_ops": ops,
                "percentages_0_100_covered": len([p for p in pct_seen if 0 <= p <= 100]),
                "percentages_outside_0_100": sorted(p for p in pct_seen if p < 0 or p > 100),
                "cookie_lines_per_request": lens["lines"], "cookie_header_bytes_per_request": lens["value_bytes"],
                "preimages": "values with FNV-1a hash exactly T(p) and T(p)+1 for every p in 0..100, plus hash 0 and 2^32-1",
            },
            "outcome_distribution": {
                "balancer_chosen": decisions, "answered_by": served_codes, "set_results": set_results, "history_steps": hist_out,
            },
            "samples": [{k: v for k, v in cases[i].items() if not k.startswith("_")} | (
                {"reqs": cases[i]["reqs"][:3]} if cases[i]["kind"] == "split" else {}) for i in (0, 14, len(cases) - 5)],
            "correspondence": {"cases": len(cases), "decisions": n_dec + n_req_hist,
                               "disagreements": len([f for f in failing if not f[1]]),
                               "monitor_failures": len([f for f in failing if not f[2]])},
        })
        res.assumptions = [
            "model/Rollout.v is hand-written; tied to rollout_controller.go, service.go, net/http cookie parsing and hash/fnv only by this correspondence run",
            "requests are handed to Router.ServeHTTP with raw Cookie header values; HTTP/1 wire parsing of the server is not on the path",
            "for Cookie values containing control bytes the answering backend is not observable (http.Transport refuses to forward them); "
            "the balancer returned by loadBalancerForRequest is compared instead",
            "c10_threshold relies on the standard library's specification axioms of primitive floats/Uint63 and on the classical reals used by Flocq (see trusted_base)",
            "FNV-1a's uniformity over real cookie values is not part of the theorem (c10_share is about hash values)",
        ]
        mon_fail = [f for f in failing if not f[2]]
        new_fail = mon_fail
        disagree = [f for f in failing if f[2] and not f[1]]
        if par_bad and not new_fail:
            j, po = par_bad[0]
            res.violation("concurrent-%d" % j, {"property": "C10", "seed": seed, "tier": tier,
                                               "what": "the split decision is not a function of the cookie value: decided by several goroutines at once, a "
                                                       "value landed on another side than the one just decided for it sequentially (stickiness, props/C10.v c10_sticky)",
                                               "case": {k: v for k, v in cases[j].items() if not k.startswith("_")}, "observed": po})
        elif new_fail:
            j = new_fail[0][0]
            c = {k: v for k, v in cases[j].items() if not k.startswith("_")}
            res.violation("monitor-%d" % j, {"property": "C10", "what": "monitor false on an implementation trace",
                                             "case": c, "observed": obs[j], "seed": seed, "tier": tier,
                                             "agrees_with_model": new_fail[0][1]})
        elif disagree or not harness_ok or not proofs_ok:
            what = ("model and implementation disagree" if disagree else
                    "harness does not build/run against the tree" if not harness_ok else "proof obligations of props/C10.v do not check")
            payload = {"property": "C10", "what": what, "seed": seed, "tier": tier,
                       "broken": "corr.C10corr.check_case (model/Rollout.v vs rollout_controller.go/service.go)"
                       if disagree or not harness_ok else "props/C10.v"}
            if disagree:
                j = disagree[0][0]
                payload.update({"case": {k: v for k, v in cases[j].items() if not k.startswith("_")}, "observed": obs[j]})
            if not harness_ok:
                payload["harness_output"] = out[-3000:]
            if not proofs_ok:
                payload["coq_output"] = (blog + pa)[-3000:]
            res.violation("broken", payload, no_input=True)
        return res.finish()
    finally:
        work.cleanup()
