"""C11 — a restart changes nothing observable."""
from m4check import run_property
import m4

SEC = m4.SEC


def directed():
    """Every kind of state a service can be saved in x every command that can follow the restart: the pair (history, history with a
    restart just before the follow-up command) must be indistinguishable - in particular the restored proxy must REACT to the
    follow-up as the original does (resume / stop of a restored paused service, rollout set on a restored service without rollout
    targets, ...)."""
    dep = lambda ts: {"op": "deploy", "name": b"web", "hosts": [b"a.example.com"], "prefixes": [], "tls": False, "tls_redirect": False,
                      "strip": True, "cert": "none", "pages": "none", "topts": 0, "targets": [{"name": t, "healthy": True} for t in ts]}
    rdep = lambda ts: {"op": "rollout_deploy", "name": b"web", "targets": [{"name": t, "healthy": True} for t in ts]}
    rset = {"op": "rollout_set", "name": b"web", "pct": 0, "allow": [b"alice", b"carol"]}
    pause = {"op": "pause", "name": b"web", "fail_after": SEC}
    stop = {"op": "stop", "name": b"web", "msg": m4.MESSAGES[1 % len(m4.MESSAGES)]}
    pause0 = {"op": "pause", "name": b"web", "fail_after": 0}      # max-pause 0: every request times out at once (504)
    states = [[], [pause], [pause0], [stop], [rdep([b"tc:8080"])], [rdep([b"tc:8080"]), rset], [rdep([b"tc:8080"]), rset, pause],
              [rdep([b"tc:8080"]), rset, {"op": "rollout_stop", "name": b"web"}]]
    follow = [[{"op": "resume", "name": b"web"}], [stop, {"op": "resume", "name": b"web"}], [pause, {"op": "resume", "name": b"web"}],
              [rset], [{"op": "rollout_set", "name": b"web", "pct": 100, "allow": []}], [{"op": "rollout_stop", "name": b"web"}],
              [rdep([b"td:8080"]), rset], [dep([b"tb:80"])], [{"op": "remove", "name": b"web"}, dep([b"tb:80"])]]
    out = []
    # a snapshot taken while one target of the service is failing its probes (out of rotation): the file still lists it, the
    # restored proxy probes it and uses it again once it recovers
    sick = dict(dep([b"ta:80", b"tb:80"]), outage_after=b"ta:80")
    out.append(([sick, pause, {"op": "resume", "name": b"web"}, {"op": "resume", "name": b"web"}, {"op": "resume", "name": b"web"},
                 {"op": "resume", "name": b"web"}, {"op": "resume", "name": b"web"}], 3))
    # a TLS root-path service with a static certificate on a WILDCARD host and a sub-path service on the same host (it inherits
    # the TLS flags): the saved state must restore
    wdep = lambda name, prefixes, tls, cert, t: {"op": "deploy", "name": name, "hosts": [b"*.example.com"], "prefixes": prefixes, "tls": tls,
                                                 "tls_redirect": False, "strip": True, "cert": cert, "pages": "none", "topts": 0,
                                                 "targets": [{"name": t, "healthy": True}]}
    out.append(([wdep(b"web", [], True, "good", b"ta:80"), wdep(b"api", [b"/api"], False, "none", b"tb:80"),
                 {"op": "stop", "name": b"api", "msg": b"down"}, {"op": "resume", "name": b"api"}], 2))
    # restored targets are presumed healthy until their first probe - the rollout targets too: the first probe after the restart
    # is answered late, the rollout group's requests arrive meanwhile
    for tgt in (b"tc:8080", b"ta:80"):
        out.append(([dep([b"ta:80"]), rdep([b"tc:8080"]), dict(rset, slow_probe_after=tgt), {"op": "resume", "name": b"web"},
                     {"op": "rollout_set", "name": b"web", "pct": 100, "allow": []}], 3))
    for st in states:
        for fo in follow:
            h = [dep([b"ta:80", b"tb:80"])] + st + fo
            out.append((h, 1 + len(st)))
    return out


def run(tier, seed):
    fx = directed()
    if tier == "quick":      # the four special pairs and a third of the state x follow-up pairs per quick run, chosen by the seed; all in the thorough tier
        fx = fx[:4] + [p for i, p in enumerate(fx[4:]) if i % 3 == seed % 3]
    return run_property(
        "C11", tier, seed, ["C11.v", "M4link.v", "C11step.v"], ["props/C11.vo", "props/M4link.vo", "props/C11step.vo"],
        profile={"deploy": 8, "deploy_fail": 2, "remove": 1, "restart": 1, "flap": 3, "rollout_deploy": 5, "rollout_set": 6,
                 "rollout_stop": 1, "pause": 4, "stop": 4, "resume": 4, "rollout_template": True},
        monitor="c11_ok h1 h2 k && c11_restart_step_ok h1 h2 k", n_quick=24, n_thorough=400, pair_restart=True, len_range=(3, 12), fixed=fx)
