"""C11 — a restart changes nothing observable."""
from m4check import run_property


def run(tier, seed):
    return run_property(
        "C11", tier, seed, ["C11.v", "M4link.v"], ["props/C11.vo", "props/M4link.vo"],
        profile={"deploy": 8, "deploy_fail": 2, "remove": 1, "restart": 1, "flap": 3, "rollout_deploy": 5, "rollout_set": 6,
                 "rollout_stop": 1, "pause": 4, "stop": 4, "resume": 4, "rollout_template": True},
        monitor="c11_ok h1 h2 k", n_quick=24, n_thorough=400, pair_restart=True, len_range=(3, 12))
