"""Source-translation tie for two pieces of decision logic (harness/gofacts -> GenFacts.v, coq/corr/GenTie.v.in).

On every C01 / C09 run the locked region of Target.HealthCheckCompleted and LoadBalancer.nextTarget are re-read from the
tree under test, written as Gallina definitions and the theorems of GenTie.v.in ("the model's probe_next / next_idx ARE
what the source says") are re-checked by coqc against them.

 * a function the translator cannot express (a rewrite outside its small Go subset) is reported in the evidence as
   "not translated" and is NOT an alarm: the correspondence run stays the tie for it;
 * a translated function whose theorem no longer checks breaks a proof obligation: gen_tie() returns ok=False and a
   log naming the theorem and, from a kernel evaluation of both sides on a grid of inputs, the inputs on which the
   source and the model differ (the callers report it like any other broken obligation; the concrete replay, if there
   is one, comes from their monitors on the recorded traces).
"""
import json
import os
import re
import subprocess

from vlib import COQ, HARNESS, REPO, go_env

GOFACTS = os.path.join(HARNESS, "gofacts")
TEMPLATE = os.path.join(COQ, "corr", "GenTie.v.in")
if not os.path.exists(TEMPLATE):          # a scratch copy of the development that predates the template
    TEMPLATE = os.path.join(os.path.dirname(os.path.dirname(os.path.abspath(__file__))), "coq", "corr", "GenTie.v.in")
THEOREMS = {"gen_health_check_locked": "gen_health_check_is_probe_next", "gen_next_target": "gen_next_target_is_next_idx",
            "gen_handle_proxy_error": "gen_handle_proxy_error_is_classify", "gen_service_ladder": "gen_service_ladder_is_serve"}
NEEDS = {"gen_service_ladder": ["gen_should_redirect"]}      # functions a theorem mentions beside its own

GRID = {
    "gen_health_check_locked":
        "filter (fun x => let '(st, ok) := x in negb (let '(a, b) := gen_health_check_locked st false ok in "
        "tstate_eqb a (probe_next st ok) && Bool.eqb b (ok && tstate_eqb st TAdding))) "
        "(flat_map (fun st => map (fun ok => (st, ok)) [true; false]) [TAdding; TDraining; THealthy; TUnhealthy])",
    "gen_handle_proxy_error":
        "filter (fun x => let '(mb, to, ca, dr) := x in negb (let '(a, b) := gen_handle_proxy_error mb to ca dr in "
        "Nat.eqb a (N.to_nat (ProxyError.classify_info (ProxyError.mkErr mb to ca dr))) && Bool.eqb b (Nat.eqb a 499))) "
        "(flat_map (fun mb => flat_map (fun to => flat_map (fun ca => map (fun dr => (mb, to, ca, dr)) [true; false]) [true; false]) [true; false]) [true; false])",
    "gen_service_ladder":
        "filter (fun x => let '(tls, redir, q, g) := x in negb (Nat.eqb (gen_service_ladder (gen_should_redirect tls redir q) tls redir q g) "
        "(if tls && redir && negb q then 1 else if negb tls && q then 503 else if g then 0 else 4))) "
        "(flat_map (fun a => flat_map (fun b => flat_map (fun c => map (fun d => (a, b, c, d)) [true; false]) [true; false]) [true; false]) [true; false])",
    "gen_next_target":
        "filter (fun x => let '(i, k) := x in negb (let '(a, b) := gen_next_target i k in "
        "if Nat.eqb k 0 then Nat.eqb a i && match b with None => true | _ => false end "
        "else Nat.eqb a (next_idx i k) && match b with Some c => Nat.eqb c (next_idx i k) | None => false end)) "
        "(flat_map (fun i => map (fun k => (i, k)) (seq 0 8)) (seq 0 8))",
}


def _coqc(cwd, name, timeout=600):
    p = subprocess.run(["coqc", "-Q", COQ, "KP", "-Q", ".", "", "-w", "-notation-overridden", name], cwd=cwd,
                       stdout=subprocess.PIPE, stderr=subprocess.STDOUT, text=True, timeout=timeout)
    return p.returncode == 0, p.stdout


def gen_tie(work, res, only=("gen_health_check_locked", "gen_next_target")):
    """Returns (ok, log).  Fills res.coverage['source_translation'].  `only`: the functions this check is about."""
    d = work.path("gentie")
    os.makedirs(d, exist_ok=True)
    cov = {"translator": "harness/gofacts (Go subset: assignments to the tracked variables, switch / if over them, early return)",
           "functions": {}}
    res.coverage["source_translation"] = cov
    exe = os.path.join(d, "gofacts")
    p = subprocess.run(["go", "build", "-o", exe, "."], cwd=GOFACTS, env=go_env(), stdout=subprocess.PIPE, stderr=subprocess.STDOUT,
                       text=True, timeout=600)
    if p.returncode != 0:
        cov["status"] = "translator does not build"
        return False, "harness/gofacts does not build:\n" + p.stdout[-2000:]
    # the translator's own tests: known forms translate to the expected Gallina, what it cannot express is declined
    p = subprocess.run(["go", "test", "-count=1", "."], cwd=GOFACTS, env=go_env(), stdout=subprocess.PIPE, stderr=subprocess.STDOUT,
                       text=True, timeout=600)
    cov["translator_selftest"] = "ok" if p.returncode == 0 else p.stdout[-500:]
    if p.returncode != 0:
        cov["status"] = "translator self-test fails"
        return False, "harness/gofacts self-test fails:\n" + p.stdout[-2000:]
    env = go_env()
    env["VERIF_REPO"] = REPO
    p = subprocess.run([exe, os.path.join(d, "GenFacts.v"), os.path.join(d, "report.json")], env=env, stdout=subprocess.PIPE,
                       stderr=subprocess.STDOUT, text=True, timeout=300)
    if p.returncode != 0:
        # the source files do not parse / are gone: the tree does not build either, the callers' harness run reports that
        cov["status"] = "translator could not read the source: " + p.stdout[-300:]
        return True, ""
    report = json.load(open(os.path.join(d, "report.json")))
    ok, out = _coqc(d, "GenFacts.v")
    if not ok:
        cov["status"] = "generated definitions do not compile"
        return False, "GenFacts.v (generated by harness/gofacts) does not compile:\n" + out[-2000:]
    tpl = open(TEMPLATE).read()
    head, *sections = re.split(r"(?=\(\*\* the locked region|\(\*\* nextTarget|\(\*\* handleProxyError|\(\*\* the service ladder)", tpl)
    by_name = {}
    for sec in sections:
        for fn, th in THEOREMS.items():
            if th in sec:
                by_name[fn] = sec
    all_ok, log = True, ""
    for r in report:
        fn = r["name"]
        if fn not in only:
            continue
        missing = [n for n in NEEDS.get(fn, []) if not any(x["name"] == n and x["ok"] for x in report)]
        if r["ok"] and missing:
            r = dict(r, ok=False, unsupported="needs %s, which is not translated" % ", ".join(missing))
        if not r["ok"]:
            cov["functions"][fn] = {"source": r["source"], "translated": False, "reason": r.get("unsupported"),
                                    "tie": "correspondence run only (not an alarm)"}
            continue
        with open(os.path.join(d, "GenTie_%s.v" % fn), "w") as f:
            f.write(head + by_name[fn])
        ok, out = _coqc(d, "GenTie_%s.v" % fn)
        closed = out.count("Closed under the global context")
        entry = {"source": r["source"], "translated": True, "gallina": r["gallina"], "theorem": THEOREMS[fn],
                 "proved": bool(ok and closed == 1), "assumptions": "Closed under the global context" if closed == 1 else out[-300:]}
        cov["functions"][fn] = entry
        if not entry["proved"]:
            all_ok = False
            with open(os.path.join(d, "Grid_%s.v" % fn), "w") as f:
                f.write("From Coq Require Import List Bool Arith NArith.\nImport ListNotations.\nFrom KP Require Import model.Base model.Trace model.M5lb.\nFrom KP Require model.ProxyError model.ServiceMap model.Seq.\n"
                        "Require Import GenFacts.\nDefinition R := Eval vm_compute in %s.\nPrint R.\n" % GRID[fn])
            g_ok, g_out = _coqc(d, "Grid_%s.v" % fn)
            entry["inputs_on_which_source_and_model_differ"] = g_out.strip()[-600:] if g_ok else "grid evaluation failed: " + g_out[-300:]
            log += ("theorem %s (coq/corr/GenTie.v.in: the model's definition equals what %s says now) does not check.\n"
                    "source as translated: %s\ninputs on which the source and the model differ (grid): %s\ncoqc: %s\n"
                    % (THEOREMS[fn], r["source"], r["gallina"], entry["inputs_on_which_source_and_model_differ"], out[-800:]))
    cov["status"] = "ok" if all_ok else "a tie theorem does not check"
    return all_ok, log
