"""C05 — no two services ever own the same host and path."""
import os
from m4check import run_property
from vlib import *


def race_stress(res, work, tier):
    """Concurrent form of 'exactly one of several racing deploys succeeds' (real scheduler)."""
    rounds = 12 if tier == "quick" else 120
    rc, out = go_test(work, ["common_test.go", "sim_test.go", "simrun_test.go", "assets_test.go", "c05_race_test.go"],
                      "^TestVerifC05Race$", {"VERIF_OUT": work.path("race.jsonl"), "VERIF_ROUNDS": str(rounds), "GODEBUG": "", "GOGC": "100"},
                      timeout=900, synctest=True)   # synctest only so that the shared harness files compile; real scheduler
    if rc != 0 or not os.path.exists(work.path("race.jsonl")):
        return False, [], out
    rows = read_jsonl(work.path("race.jsonl"))
    bad = [r for r in rows if r["succeeded"] != 1 or r["owners_listed"] != 1]
    res.coverage["race_stress"] = {"rounds": len(rows), "racers_per_round": 8, "rounds_with_exactly_one_winner": len(rows) - len(bad)}
    return True, bad, out


def run(tier, seed):
    return run_property(
        "C05", tier, seed, ["C05.v", "M4link.v"], ["props/C05.vo", "props/M4link.vo"],
        profile={"deploy": 14, "deploy_fail": 2, "remove": 5, "restart": 2, "rollout_deploy": 1, "rollout_set": 0,
                 "rollout_stop": 0, "pause": 1, "stop": 1, "resume": 1},
        monitor="c05_ok h", n_quick=40, n_thorough=600, extra=race_stress)
