"""C05 — no two services ever own the same host and path."""
import os
from m4check import run_property
from vlib import COQ


def run(tier, seed):
    return run_property(
        "C05", tier, seed, ["C05.v"], ["props/C05.vo"],
        profile={"deploy": 14, "deploy_fail": 2, "remove": 5, "restart": 2, "rollout_deploy": 1, "rollout_set": 0,
                 "rollout_stop": 0, "pause": 1, "stop": 1, "resume": 1},
        monitor="c05_ok h", n_quick=40, n_thorough=600)
