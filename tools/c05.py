"""C05 — no two services ever own the same host and path."""
import json
import os
from m4check import run_property
from vlib import *


REGIONS = []      # recorded sequences of write-lock regions (install / removed), one per scenario / race round: (origin, [region])


def race_stress(res, work, tier):
    """Concurrent form of 'exactly one of several racing deploys succeeds' (real scheduler).  Two passes: racers with 3000
    private hosts each (a long availability check: a wide race window; counted only), and racers with 24 private hosts each whose
    sequence of lock regions is RECORDED for the ownership view model/M5own.v (plus a second wave racing for the pair the
    removed winner released)."""
    files = ["common_test.go", "sim_test.go", "simrun_test.go", "assets_test.go", "c05_race_test.go"]
    rounds = 12 if tier == "quick" else 120
    rc, out = go_test(work, files,
                      "^TestVerifC05Race$", {"VERIF_OUT": work.path("race.jsonl"), "VERIF_ROUNDS": str(rounds), "GODEBUG": "", "GOGC": "100"},
                      timeout=900, synctest=True)   # synctest only so that the shared harness files compile; real scheduler
    if rc != 0 or not os.path.exists(work.path("race.jsonl")):
        return False, [], out
    rows = read_jsonl(work.path("race.jsonl"))
    bad = [r for r in rows if r["succeeded"] != 1 or r["owners_listed"] != 1]
    res.coverage["race_stress"] = {"rounds": len(rows), "racers_per_round": 8, "rounds_with_exactly_one_winner": len(rows) - len(bad)}
    if bad:
        return True, bad, out
    rounds2 = 40 if tier == "quick" else 400
    rc, out = go_test(work, files, "^TestVerifC05Race$",
                      {"VERIF_OUT": work.path("race2.jsonl"), "VERIF_ROUNDS": str(rounds2), "VERIF_HOSTS": "24", "VERIF_RECORD": "1",
                       "GODEBUG": "", "GOGC": "100"}, timeout=900, synctest=True)
    if rc != 0 or not os.path.exists(work.path("race2.jsonl")):
        return False, [], out
    rows = read_jsonl(work.path("race2.jsonl"))
    bad = [dict(r, regions=None) for r in rows if r["succeeded"] != 1 or r["owners_listed"] != 1 or r["second_wave_succeeded"] != 1]
    for r in rows:
        REGIONS.append(({"race_round": r["round"], "results": r["results"]}, r["regions"] or []))
    res.coverage["race_stress_recorded"] = {"rounds": len(rows), "racers_per_round": 8, "second_wave_racers": 7,
                                            "rounds_with_exactly_one_winner_in_both_waves": len(rows) - len(bad)}
    return True, bad, out


def region_term(r):
    hx = lambda x: str_lit(bytes.fromhex(x))
    if r["k"] == "install":
        return "OInstall %s %s %s %s" % (str_lit(r["name"].encode("utf-8", "surrogateescape")), list_lit([hx(h) for h in r["hosts"]]),
                                         list_lit([hx(p) for p in r["prefixes"]]), bool_lit(r["ok"]))
    return "ORemove %s" % str_lit(r["name"].encode("utf-8", "surrogateescape"))


def regions_of_events(events):
    """the install / removed hook events of a sim trace, in trace order (= lock order)"""
    out = []
    for e in events:
        a = e["args"]
        if e["kind"] == "install" and len(a) >= 4:
            out.append({"k": "install", "name": a[0].split(":", 1)[1], "hosts": a[2], "prefixes": a[3], "ok": bool(a[1])})
        elif e["kind"] == "removed":
            out.append({"k": "removed", "name": a[0].split(":", 1)[1]})
    return out


def ownership_view(res, work, tier):
    """Every recorded sequence of table-changing lock regions must be accepted by model/M5own.v (theorems: props/C05conc.v) and
    satisfy the monitor c05c_ok (each pair owned once after every region, rebuilt from the successful regions alone)."""
    import m4x
    if not REGIONS:
        return False, [], "CORRESPONDENCE: no lock-region sequence was recorded (install hook events carry no options?)"
    terms = ["(%s : list oev)" % list_lit([region_term(r) for r in regs]) for _, regs in REGIONS]
    vals = m4x.coq_map(work, "From KP Require Import model.Base model.ServiceMap model.M5own.", "", terms,
                       "fun l => (oaccepted l, c05c_ok l, ofirst_reject [] l 0)", "C05own", shard=max(1, len(terms) // 16 + 1))
    mon_bad, rej = [], []
    wins = installs = removes = 0
    for (origin, regs), v in zip(REGIONS, vals):
        acc, okk, first = v
        installs += len([r for r in regs if r["k"] == "install"])
        wins += len([r for r in regs if r["k"] == "install" and r["ok"]])
        removes += len([r for r in regs if r["k"] == "removed"])
        if not okk:
            mon_bad.append({"origin": origin, "regions": regs, "what": "two services own one (host, path prefix) pair after a lock region "
                            "of the recorded sequence (corr monitor M5own.c05c_ok false)",
                            "replay_note": "the scenario / race round under 'origin' (harness/sim_test.go TestVerifSim or harness/c05_race_test.go)"})
        elif not acc:
            rej.append({"origin": origin, "regions": regs, "first_rejected_region": first})
    res.coverage["ownership_view"] = {"sequences": len(REGIONS), "install_regions": installs, "successful": wins, "remove_regions": removes,
                                      "accepted": len(REGIONS) - len(rej) - len(mon_bad), "monitor_failures": len(mon_bad)}
    if mon_bad:
        return True, mon_bad, ""
    if rej:
        return False, [], "CORRESPONDENCE: a recorded sequence of write-lock regions is not accepted by model/M5own.v (theorems props/C05conc.v): " + json.dumps(rej[0])[:2500]
    return True, [], ""


def interleaved(res, work, tier, seed=1):
    """Deploys of the owner-changing kind INTERLEAVED on the virtual clock: a (rollout) deploy that is still waiting for its
    targets while the pair it holds / wants is released and claimed by another service.  After every step the saved state is
    observed; corr.M4corr.c05_step_ok's predicate (ServiceMap.pair_owned_once) must hold of every observation."""
    import random
    import m4
    import m5
    import m4x
    import forced
    H, SEC = m5.H, m5.SEC
    rnd = random.Random(seed * 977 + 5)
    h1, h2 = b"a.example.com", b"b.example.com"
    late = ["refused", "refused", "ok"]       # healthy at the third probe (~2 s)

    def dep(cid, name, host, targets, asyn=False, probes=None, prefixes=None):
        d = forced.dep(cid, targets, asyn=asyn, name=name, host=host)
        d["prefixes"] = [H(p) for p in (prefixes or [])]
        for t in d["targets"]:
            t["probes"] = probes or ["ok"]
        return d

    def obs(k):
        return {"op": "observe", "id": "o%d" % k}
    scenarios = []
    n = 12 if tier == "quick" else 120
    k = 0
    while len(scenarios) < n:
        k += 1
        tn = lambda: [b"u%d:80" % rnd.randrange(10 ** 6)]
        shape = k % 4
        pre = rnd.choice([[], [b"/api"], [b"/api", b"/x"]])
        steps = [dep("c1", b"A", h1, tn(), prefixes=pre), obs(1)]
        gap = {"op": "sleep", "ns": rnd.choice([1, SEC // 2, SEC])}
        if shape == 0:      # rollout deploy of A waits; A is removed; B claims A's pair; the rollout deploy completes
            steps += [{"op": "rollout_deploy", "id": "c2", "async": True, "name": H(b"A"), "targets": [{"name": H(tn()[0]), "probes": late}],
                       "deploy_timeout": 5 * SEC, "drain_timeout": SEC}, gap,
                      {"op": "remove", "id": "c3", "async": False, "name": H(b"A")}, obs(2), dep("c4", b"B", h1, tn(), prefixes=pre), obs(3)]
        elif shape == 1:    # ... A is moved to another host instead of removed
            steps += [{"op": "rollout_deploy", "id": "c2", "async": True, "name": H(b"A"), "targets": [{"name": H(tn()[0]), "probes": late}],
                       "deploy_timeout": 5 * SEC, "drain_timeout": SEC}, gap,
                      dep("c3", b"A", h2, tn(), prefixes=pre), obs(2), dep("c4", b"B", h1, tn(), prefixes=pre), obs(3)]
        elif shape == 2:    # a redeploy of A waits; A is removed; B claims the pair; the redeploy completes
            steps += [dep("c2", b"A", h1, tn(), asyn=True, probes=late, prefixes=pre), gap,
                      {"op": "remove", "id": "c3", "async": False, "name": H(b"A")}, obs(2), dep("c4", b"B", h1, tn(), prefixes=pre), obs(3)]
        else:               # a first deploy of C waits for the pair B takes meanwhile
            steps += [dep("c2", b"C", h2, tn(), asyn=True, probes=late, prefixes=pre), gap, dep("c4", b"B", h2, tn(), prefixes=pre), obs(2)]
        steps += [{"op": "sleep", "ns": 4 * SEC}, obs(4), {"op": "sleep", "ns": SEC}, obs(5)]
        scenarios.append({"steps": steps})
    ok, gout, outs = m5.run_scenarios(work, scenarios)
    if not ok:
        return False, [], gout
    for j, o in enumerate(outs):
        REGIONS.append(({"interleaved_scenario": scenarios[j]}, regions_of_events(o["events"])))
    terms, where = [], []
    for j, o in enumerate(outs):
        for r in o["results"]:
            if r.get("op") == "observe" and isinstance(r["state_file"], list):
                terms.append("(%s : list snap_svc)" % list_lit([m4.snap_term(sv) for sv in r["state_file"]]))
                where.append((j, r["id"]))
    vals = m4x.coq_map(work, "From KP Require Import model.Base model.ServiceMap corr.M4corr.", "", terms,
                       "fun l => pair_owned_once (snap_table l)", "C05il", shard=4)
    bad = [{"scenario": scenarios[j], "observation": oid, "what": "two services own one (host, path prefix) pair in the saved state",
            "results": [r for r in outs[j]["results"] if r.get("op") != "observe"],
            "replay_note": "scenario steps for harness/sim_test.go (TestVerifSim, virtual clock)"}
           for (j, oid), v in zip(where, vals) if not v]
    cmds = {}
    for o in outs:
        for r in o["results"]:
            if "result" in r:
                key = "%s:%s" % (r["op"], r["result"])
                cmds[key] = cmds.get(key, 0) + 1
    res.coverage["interleaved_deploys"] = {"scenarios": len(outs), "observations_checked": len(terms), "command_mix": cmds,
                                           "observations_with_a_pair_owned_twice": len(bad)}
    return True, bad, gout


def both(res, work, tier):
    del REGIONS[:]
    ok, bad, out = interleaved(res, work, tier)
    if not ok or bad:
        return ok, bad, out
    ok, bad, out = race_stress(res, work, tier)
    if not ok or bad:
        return ok, bad, out
    return ownership_view(res, work, tier)


def D(name, hosts, prefixes, t, strip=True):
    return {"op": "deploy", "name": name, "hosts": hosts, "prefixes": prefixes, "tls": False, "tls_redirect": False, "strip": strip,
            "cert": "none", "pages": "none", "topts": 0, "targets": [{"name": t, "healthy": True}]}


def directed():
    """owner-changing shapes: a redeploy that changes only its prefixes (or only its hosts) releases the old pairs and claims
    the new ones; removing one of two services that share a host releases only ITS pairs; the next claim of each pair is
    accepted / refused accordingly"""
    h, g = b"a.example.com", b"b.example.com"
    out = []
    for p1, p2 in ((b"/one", b"/two"), (b"/api", b"/"), (b"/", b"/api")):
        out.append([D(b"web", [h], [p1], b"ta:80"), D(b"web", [h], [p2], b"tb:80"), D(b"api", [h], [p2], b"tc:80"),
                    D(b"api", [h], [p1], b"td:80"), D(b"web", [h], [p1], b"te:80"), D(b"web", [h], [p2, b"/x"], b"tf:80")])
    out.append([D(b"web", [h], [b"/one"], b"ta:80"), D(b"web", [g], [b"/one"], b"tb:80"), D(b"api", [g], [b"/one"], b"tc:80"),
                D(b"api", [h], [b"/one"], b"td:80"), D(b"web", [h, g], [b"/one"], b"te:80")])
    for first, second in ((b"/first", b"/second"), (b"/", b"/second")):
        out.append([D(b"web", [h], [first], b"ta:80"), D(b"api", [h], [second], b"tb:80"), {"op": "remove", "name": b"web"},
                    D(b"docs", [h], [second], b"tc:80"), D(b"docs", [h], [first], b"td:80"), {"op": "remove", "name": b"api"},
                    D(b"web", [h], [second], b"te:80")])
    # nested prefixes of one service are each owned; wildcard and default hosts are owned like any other
    for st in (True, False):
        out.append([D(b"web", [h], [b"/api", b"/api/v2"], b"ta:80", st), D(b"api", [h], [b"/api/v2"], b"tb:80", st),
                    D(b"api", [h], [b"/api/v2/x"], b"tc:80", st), D(b"docs", [h], [b"/api"], b"td:80", st),
                    D(b"web", [h], [b"/api"], b"te:80", st), D(b"docs", [h], [b"/api/v2"], b"tf:80", st)])
        out.append([D(b"web", [], [b"/", b"/admin"], b"ta:80", st), D(b"api", [], [b"/admin"], b"tb:80", st),
                    D(b"api", [], [b"/admin/x"], b"tc:80", st)])
    for wh in ([b"*.example.com"], [b"*.example.com", h], []):
        out.append([D(b"web", wh, [b"/"], b"ta:80"), D(b"api", wh[:1], [b"/"], b"tb:80"), D(b"api", wh[:1], [b"/api"], b"tc:80"),
                    D(b"web", [g], [b"/"], b"td:80"), D(b"docs", wh[:1], [b"/"], b"te:80"), D(b"web", wh[:1], [b"/"], b"tf:80")])
    out.append([D(b"web", [h, g], [b"/"], b"ta:80"), D(b"api", [g], [b"/api"], b"tb:80"), {"op": "remove", "name": b"web"},
                D(b"docs", [g], [b"/api"], b"tc:80"), D(b"docs", [h], [b"/"], b"td:80"), D(b"docs", [g], [b"/"], b"te:80")])
    # a host listed twice by one service; the no-host default owned by another one, released, claimed again: a refusal needs a
    # real owner, a success needs the pair free (corr/C05cmd.c05_refusal_ok)
    out.append([D(b"catch", [], [b"/"], b"ta:80"), D(b"web", [h, h], [b"/"], b"tb:80"), D(b"api", [g], [b"/"], b"tc:80"),
                {"op": "remove", "name": b"api"}, D(b"docs", [], [b"/"], b"td:80"), {"op": "remove", "name": b"catch"},
                D(b"docs", [], [b"/"], b"te:80"), D(b"api", [h], [b"/"], b"tf:80"), {"op": "remove", "name": b"web"}, D(b"api", [h], [b"/"], b"tg:80")])
    # a service with two hosts and three (five) prefixes next to a service with a longer prefix on one of those hosts; the index is
    # rebuilt again and again (whatever order the rebuild visits the services in) and every pair stays owned: an intruder claiming
    # any of them is refused each time
    for prefs in ([b"/api", b"/app", b"/web"], [b"/a", b"/bb", b"/ccc", b"/dddd", b"/web"]):
        hist = [D(b"shop", [h, g], prefs, b"ta:80"), D(b"admin", [h], [b"/admin"], b"tb:80")]
        for k in range(5):
            hist.append(D(b"admin", [h], [b"/admin"], b"tb%d:80" % k))
            for hh in (h, g):
                for pp in (prefs if len(prefs) == 3 else prefs[k % 2::2]):
                    hist.append(D(b"intruder", [hh], [pp], b"tx:80"))
        out.append(hist)
    # a (re)deploy that lists several hosts of which a LATER one is owned by somebody else (the first ones its own, or free, with
    # and without bindings): refused whatever the position of the conflicting host in the list; the same prefix on every host
    s1, s2, s3 = b"spare.example.com", b"two.example.com", b"three.example.com"
    for pf in ([b"/"], [b"/api"]):
        out.append([D(b"one", [h], pf, b"ta:80"), D(b"two", [s1], pf, b"tb:80"), D(b"two", [s1, h], pf, b"tc:80"),
                    D(b"two", [s1, s2, h], pf, b"td:80"), D(b"three", [s3, s1, h], pf, b"te:80"), D(b"three", [s3, s2, g], pf, b"tf:80"),
                    D(b"two", [s1, g, h], pf, b"tg:80"), D(b"two", [s1, s2], pf, b"th:80"), D(b"one", [h, s2], pf, b"ti:80"),
                    D(b"one", [h, g, s3, s2], pf, b"tj:80")])
    return out


def run(tier, seed):
    return run_property(
        "C05", tier, seed, ["C05.v", "C05conc.v", "C05cmd.v", "C05refusal.v", "M4link.v"], ["props/C05.vo", "props/C05conc.vo", "props/C05cmd.vo", "props/C05refusal.vo", "props/M4link.vo"],
        profile={"deploy": 14, "deploy_fail": 2, "remove": 5, "restart": 2, "rollout_deploy": 1, "rollout_set": 0,
                 "rollout_stop": 0, "pause": 1, "stop": 1, "resume": 1},
        monitor="c05_ok h && c05_cmd_ok h && c05_refusal_ok h", n_quick=40, n_thorough=600, extra=both, fixed=directed())
