#!/usr/bin/env python3
"""Prints the prompt for an independent 'seeded change' sub-agent for one property
and creates its scratch worktree.  usage: mutprompt.py C04"""
import json, subprocess, sys, os
pid = sys.argv[1]
rnd = sys.argv[2] if len(sys.argv) > 2 else ""
avoid = sys.argv[3] if len(sys.argv) > 3 else ""
p = [json.loads(l) for l in open('/verif/properties.jsonl') if json.loads(l)['id'] == pid][0]
wt = "/var/tmp/mut-%s%s" % (pid, rnd)
out = "/var/tmp/mut-%s%s-out" % (pid, rnd)
if not os.path.exists(wt):
    subprocess.run(["git", "-C", "/repo", "worktree", "add", "-q", "--detach", wt, "HEAD"], check=True)
os.makedirs(out, exist_ok=True)
print(f"""You are a software engineer asked to plant a subtle regression, for the purpose of testing a verification tool, in the Go project kamal-proxy (a small HTTP reverse proxy for zero-downtime deploys). Your own scratch git worktree of the repository is at {wt} (work ONLY there and in {out}; do not read or touch /verif or /repo or any other directory under /var/tmp — they are off limits and looking there would invalidate the exercise).

The property the regression must break:

TITLE: {p['title']}
STATEMENT: {p['statement']}
FOR ALL: {p['quantifier']['text']}
CODE INVOLVED: {', '.join(p['anchors']['files'])}

Produce TWO different changes (two independent patches, each against the pristine worktree HEAD), each of which:
 1. breaks the property above (the behaviour it describes no longer holds for some input / schedule / history);
 2. still compiles, and the project's existing test suite still passes: `cd {wt} && GOFLAGS=-mod=mod GOPROXY=off go test -vet=off -count=1 ./...` (run it at least 3 times; one existing test, TestTarget_CancelledRequestsHaveStatus499, is known to be flaky on a loaded machine — ignore that one only). Do not set GOTOOLCHAIN or GOSUMDB; plain `go` selects the right toolchain offline;
 3. is REALISTIC — the kind of thing a refactor, an optimisation or a careless bug-fix would introduce, a few lines, plausible in code review — and NOT something ordinary use would expose at once: it must need something specific to manifest (a particular interleaving, a crash or fault at a particular point, a multi-step sequence of operations, an unusual input, or two cooperating code sites that each look fine alone). The two changes should use different mechanisms / code sites;
 4. comes with a DEMONSTRATION: a Go test file (placed in the package it tests, e.g. internal/server/zz_demo_test.go) or a small program that FAILS with the change applied and PASSES on the pristine HEAD. Verify both directions yourself. The demonstration may use internal APIs, sleeps, goroutines, fake backends (net/http/httptest) etc. Keep it deterministic enough to fail reliably (≥ 9 of 10 runs) with the change.

Deliver in {out}/: `1/patch.diff` (output of `git diff` for the production-code change only, without the demo file), `1/demo_test.go` (or demo program) and `1/README.md` (which property clause it breaks, what it needs in order to manifest, exact commands you ran and their results with/without the change); same under `2/`. Do NOT use `git stash` (the stash is shared between all worktrees of the repository and other engineers work in sibling worktrees): save your change with `git diff > file`, undo with `git checkout -- .`, re-apply with `git apply file`. Leave the worktree clean at the end (`git -C {wt} checkout -- . && git -C {wt} clean -fdq`). Lines calling verifEvent/verifYield/verifTargetCreated in the code are inert instrumentation hooks (no-ops); leave them alone. Finish with a three-line summary per change.""" + (("\n\nEarlier exercises already used these mechanisms — choose DIFFERENT ones (different code sites and different triggering conditions): " + avoid) if avoid else ""))
