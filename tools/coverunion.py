#!/usr/bin/env python3
"""Union of the statement coverage of /repo over the harness runs of all checks (development aid).
usage: VERIF_COVER=1 VERIF_COVER_DUMP=<dir> ./check CNN quick  (for every check), then coverunion.py <dir>
Prints the source lines of internal/server and internal/cmd that NO check's harness run executed."""
import glob, json, os, re, sys
d = sys.argv[1]
blocks = {}
for f in glob.glob(os.path.join(d, "*.blocks.json")):
    for k, (n, hit) in json.load(open(f)).items():
        b = blocks.setdefault(k, [n, False])
        b[1] = b[1] or bool(hit)
un = {}
for k, (n, hit) in blocks.items():
    if hit:
        continue
    m = re.match(r"(.*):(\d+)\.\d+,(\d+)\.\d+", k)
    if m:
        un.setdefault(m.group(1), []).append((int(m.group(2)), int(m.group(3)), n))
tot = sum(n for n, _ in blocks.values())
cov = sum(n for n, h in blocks.values() if h)
print("statements %d, executed by at least one check %d (%.1f%%)" % (tot, cov, 100.0 * cov / max(tot, 1)))
for f in sorted(un):
    path = f.split("kamal-proxy/", 1)[-1]
    src = open(os.path.join("/repo", path)).read().splitlines() if os.path.exists(os.path.join("/repo", path)) else []
    print("==", path)
    for a, b, n in sorted(un[f]):
        print("  %d-%d: %s" % (a, b, (src[a - 1].strip() if a - 1 < len(src) else "")[:110]))
