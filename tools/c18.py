"""C18 — no data race, no deadlock, no panic under concurrent commands, probes
and traffic.

Static part (the tie is a TRANSLATOR): harness/lockfacts re-extracts lock /
access / call facts from the current tree into LockFacts.v (scratch dir), the
Coq-proved checkers of model/Locks.v are evaluated on them by vm_compute
(check_guarded against the written discipline, lock_order_acyclic), and the
flagged sites are compared with /verif/known_findings/C18.json.

Dynamic part: harness/race_test.go — mixed scenarios on the real code under the
real scheduler with `go test -race`, a watchdog for hangs and panic capture.  A
race report not attributable to a known site, a panic or a hang is a violation
with the report as replay; it is also where a concrete failing schedule is
looked for when the static part flags a new site."""
import re
from concurrent.futures import ThreadPoolExecutor

from vlib import *

PKG = "github.com/basecamp/kamal-proxy/internal/server."
LOCKFACTS = os.path.join(HARNESS, "lockfacts")


# ------------------------------------------------------------ translator ----

def build_translator(work):
    exe = work.path("lockfacts")
    p = subprocess.run(["go", "build", "-o", exe, "."], cwd=LOCKFACTS, env=go_env(),
                       stdout=subprocess.PIPE, stderr=subprocess.STDOUT, text=True, timeout=600)
    return (exe if p.returncode == 0 else None), p.stdout


def translator_selftest():
    p = subprocess.run(["go", "test", "-count=1", "."], cwd=LOCKFACTS, env=go_env(),
                       stdout=subprocess.PIPE, stderr=subprocess.STDOUT, text=True, timeout=900)
    return p.returncode == 0, p.stdout


def run_translator(work, exe):
    env = go_env()
    env["VERIF_REPO"] = REPO
    p = subprocess.run([exe, work.path("LockFacts.v"), work.path("facts.json")], env=env,
                       stdout=subprocess.PIPE, stderr=subprocess.STDOUT, text=True, timeout=600)
    if p.returncode != 0:
        return None, p.stdout
    return json.load(open(work.path("facts.json"))), p.stdout


# ---------------------------------------------------------------- kernel ----

def known_sites_term(known):
    items = []
    for e in known:
        if e.get("dynamic_only"):
            continue
        st, _, fld = e["field"].partition(".")
        items.append("(%s, %s, %s, %s)" % (str_lit(e["function"].encode()), str_lit(st.encode()),
                                          str_lit(fld.encode()), "Wr" if e["kind"] == "W" else "Rd"))
    return "[" + ";\n  ".join(items) + "]"


def coq_verdict(work, known):
    """LockFacts.v + evaluation in one file.  Returns (verdict text or None, obligations ok, log)."""
    facts_v = open(work.path("LockFacts.v")).read()
    body = facts_v + """
Definition known : list known_site :=
  %s.
Definition R := Eval vm_compute in verdict_of names facts kamal_discipline known.
Set Printing Width 1000000.
Set Printing Depth 1000000.
Print R.
(* the two obligations on the regenerated facts *)
Lemma facts_guarded : unexplained names known (check_guarded names facts kamal_discipline) = [].
Proof. vm_compute. reflexivity. Qed.
Lemma facts_acyclic : lock_order_acyclic facts = true.
Proof. vm_compute. reflexivity. Qed.
""" % known_sites_term(known)
    path = work.path("C18eval.v")
    open(path, "w").write(body)
    p = subprocess.run(["coqc", "-Q", COQ, "KP", "-w", "-notation-overridden", path], cwd=work.dir,
                       stdout=subprocess.PIPE, stderr=subprocess.STDOUT, text=True, timeout=1800)
    m = re.search(r"R\s*=\s*(\{\|.*?\|\})\s*\n\s*:\s*verdict", p.stdout, re.S)
    return (m.group(1) if m else None), p.returncode == 0, p.stdout


class Term:
    """Tiny parser of the Coq terms printed for a verdict (numbers, constructors,
    tuples, lists, records); strict: anything unexpected raises."""

    def __init__(self, s):
        self.toks = re.findall(r"\{\||\|\}|:=|[\[\]\(\);,]|[A-Za-z_][A-Za-z_0-9']*|\d+(?:%[A-Za-z]+)?", s)
        self.i = 0

    def peek(self):
        return self.toks[self.i] if self.i < len(self.toks) else None

    def eat(self, t=None):
        x = self.peek()
        if x is None or (t is not None and x != t):
            raise RuntimeError("C18: cannot parse verdict near token %d (%r, wanted %r)" % (self.i, x, t))
        self.i += 1
        return x

    def atom(self):
        x = self.peek()
        if x == "[":
            self.eat()
            out = []
            while self.peek() != "]":
                out.append(self.app())
                if self.peek() == ";":
                    self.eat()
            self.eat("]")
            return out
        if x == "(":
            self.eat()
            items = [self.app()]
            while self.peek() == ",":
                self.eat()
                items.append(self.app())
            self.eat(")")
            return items[0] if len(items) == 1 else tuple(items)
        if x == "{|":
            self.eat()
            rec = {}
            while self.peek() != "|}":
                k = self.eat()
                self.eat(":=")
                rec[k] = self.app()
                if self.peek() == ";":
                    self.eat()
            self.eat("|}")
            return rec
        self.eat()
        if x[0].isdigit():
            return int(x.split("%")[0])
        return x

    def app(self):
        head = self.atom()
        if isinstance(head, str) and head[0].isupper() and head not in ("Rd", "Wr", "LR", "LW"):
            args = []
            while self.peek() not in (None, ";", ",", "]", ")", "|}"):
                args.append(self.atom())
            return (head, args) if args else head
        return head


def flat_pos(p):
    return p


def decode_violation(v, names):
    """('VUnguarded', [f, st, fld, k, (file, line)]) -> dict with names"""
    def nm(i):
        return names[i - 1] if 1 <= i <= len(names) else "?%d" % i
    if isinstance(v, str):
        return {"kind": v}
    head, a = v
    if head == "VUnguarded":
        return {"kind": head, "function": nm(a[0]), "field": nm(a[1]) + "." + nm(a[2]), "rw": "W" if a[3] == "Wr" else "R",
                "file": nm(a[4][0]), "line": a[4][1]}
    if head in ("VImmutableWrite", "VUndeclared", "VClose"):
        return {"kind": head, "function": nm(a[0]), "field": nm(a[1]) + "." + nm(a[2]), "rw": "W" if head != "VUndeclared" else "?",
                "file": nm(a[3][0]), "line": a[3][1]}
    if head == "VUnbalanced":
        return {"kind": head, "function": nm(a[0]), "field": nm(a[1][0]) + "." + nm(a[1][1]), "rw": "-",
                "file": nm(a[2][0]), "line": a[2][1]}
    if head == "VAnalysis":
        return {"kind": head, "what": {1: "entry-held map not closed within the fuel", 2: "construction set not stable"}.get(a[0], str(a[0]))}
    raise RuntimeError("C18: unknown violation " + repr(v))


def top_function(f):
    return f.split("$")[0]


# ----------------------------------------------------------- race reports ----

def parse_reports(text):
    reps = []
    for b in re.split(r"^={18}\n", text, flags=re.M):
        if "WARNING: DATA RACE" not in b:
            continue
        accs = []
        for sec in re.split(r"\n\n", b):
            lines = sec.strip("\n").split("\n")
            if lines and lines[0].startswith("WARNING: DATA RACE"):
                lines = lines[1:]
            if not lines:
                continue
            m = re.match(r"^(Read|Write|Previous read|Previous write|Atomic read|Previous atomic read|Atomic write|"
                         r"Previous atomic write) at (0x[0-9a-f]+) by (.*):$", lines[0])
            if not m:
                continue
            frames = []
            i = 1
            while i + 1 < len(lines):
                mm = re.match(r"^(.*?):(\d+)( \+0x[0-9a-f]+)?$", lines[i + 1].strip())
                if mm:
                    frames.append((re.sub(r"\(\)$", "", lines[i].strip()), mm.group(1), int(mm.group(2))))
                i += 2
            accs.append({"kind": "W" if "rite" in m.group(1) else "R", "frames": frames})
        if len(accs) >= 2:
            reps.append({"accesses": accs[:2], "text": b})
    return reps


def norm_func(fn):
    fn = fn[len(PKG):] if fn.startswith(PKG) else fn
    fn = re.sub(r"\(\*?([A-Za-z0-9_]+)\)", r"\1", fn)
    fn = re.sub(r"(\.func\d+|\.gowrap\d+|\.deferwrap\d+|\.\d+)+$", "", fn)
    return re.sub(r"-fm$", "", fn)


def pkg_frames(acc):
    """frames inside internal/server that are not harness code, innermost first"""
    return [(norm_func(fn), os.path.basename(f), line) for fn, f, line in acc["frames"]
            if fn.startswith(PKG) and "zz_verif_" not in f and f != "<autogenerated>"]


def attribute(rep, known, fields_at=None):
    """The known finding a race report belongs to, or None: one of the two
    accesses happens in (or, for entries with depth > 1, within that many
    package frames of) a known site's function, or is the construction of an
    object that a known unsynchronised pointer read publishes.  Among several
    entries of one function the one whose field is accessed on that line (by
    the extracted facts) is preferred; a line whose extracted accesses are all
    of other fields is not attributed."""
    for acc in rep["accesses"]:
        fr = pkg_frames(acc)
        for idx, (fn, f, line) in enumerate(fr):
            cands = [e for e in known if (e["function"] == fn and idx < e.get("depth", 1))
                     or (idx == 0 and fn in e.get("publishes", []))]
            if cands:
                here = (fields_at or {}).get((f, line), ())
                for e in cands:
                    if e["field"] in here:
                        return e
                # the facts know which fields this line touches and none is a
                # known one: the report is about something else
                if not here or any(fn in e.get("publishes", []) for e in cands):
                    return cands[0]
    return None


def summarise(rep):
    out = []
    for acc in rep["accesses"]:
        fr = pkg_frames(acc)
        out.append("%s %s" % (acc["kind"], "%s %s:%d" % fr[0] if fr else "(no frame in internal/server)"))
    return " / ".join(out)


def run_stress(work, seed, ms, mode="stress", workers=16):
    rc, out = go_test(work, ["assets_test.go", "race_test.go"], "^TestVerifC18Race$",
                      {"VERIF_C18_MODE": mode, "VERIF_C18_MS": str(ms), "VERIF_SEED": str(seed),
                       "VERIF_C18_WORKERS": str(workers)}, race=True, timeout=900 + ms // 1000,
                      extra_args=["-v"])     # -v: the C18-DONE line must be printed also when the run passes (no race report)
    done = re.search(r"^C18-DONE ops=(\d+) panics=(\d+) (.*)$", out, re.M)
    res = {"rc": rc, "out": out, "mode": mode, "seed": seed, "ms": ms,
           "ops": int(done.group(1)) if done else 0,
           "op_counts": dict(kv.split("=") for kv in done.group(3).split()) if done else {},
           "reports": parse_reports(out),
           "panic": None, "hang": None, "built": True}
    m = re.search(r"^(C18-PANIC .*?)(?=^C18-|\Z)", out, re.M | re.S)
    if m:
        res["panic"] = m.group(1)[:6000]
    else:
        m = re.search(r"^(panic: .*|fatal error: .*)$", out, re.M)
        if m:
            res["panic"] = out[m.start():m.start() + 6000]
    m = re.search(r"^C18-HANG.*", out, re.M)
    if m:
        res["hang"] = out[m.start():m.start() + 12000]
    elif "panic: test timed out" in out:
        res["hang"] = out[out.index("panic: test timed out"):][:12000]
        res["panic"] = None
    if not done and not res["panic"] and not res["hang"]:
        res["built"] = False     # build failure or crash before the first line
    return res


def replay_cmd(st):
    return ("cd %s && VERIF_C18_MODE=%s VERIF_C18_MS=%d VERIF_SEED=%d go test -race -tags verif -overlay <assets_test.go, race_test.go as "
            "zz_verif_*> -run '^TestVerifC18Race$' ./internal/server" % (REPO, st["mode"], st["ms"], st["seed"]))


# ------------------------------------------------------------------- run ----

def run(tier, seed):
    res = Result("C18", tier, seed)
    work = Work("C18")
    try:
        known = known_findings("C18")
        quick = tier == "quick"
        stress_ms = 5000 if quick else 45000

        # the static and the dynamic part run side by side
        pool = ThreadPoolExecutor(max_workers=4)
        fut_stress = pool.submit(run_stress, work, seed, stress_ms)
        fut_self = pool.submit(translator_selftest)

        ok, blog = coq_build(["props/C18.vo"])
        proofs_ok, pa = proof_obligations(work, res, "C18.v", ok, blog)

        exe, tlog = build_translator(work)
        data, tout = (None, tlog) if exe is None else run_translator(work, exe)
        self_ok, self_log = fut_self.result()

        static_ok = False
        verdict = None
        flagged, new_sites, known_hit = [], [], {}
        eval_log = ""
        if data is not None and ok:
            vtxt, obligations_ok, eval_log = coq_verdict(work, known)
            if vtxt is not None:
                verdict = Term(vtxt).app()
                names = data["names"]
                for v in verdict["v_violations"]:
                    d = decode_violation(v, names)
                    flagged.append(d)
                unexpl = [decode_violation(v, names) for v in verdict["v_unexplained"]]
                static_ok = True
                for d in flagged:
                    if d in unexpl:
                        continue
                    for e in known:
                        if (not e.get("dynamic_only") and e["function"] == top_function(d["function"])
                                and e["field"] == d["field"] and e["kind"] == d["rw"]):
                            known_hit.setdefault(e["id"], e)
                new_sites = unexpl
                if verdict["v_acyclic"] != "true":
                    new_sites = new_sites + [{"kind": "LockOrderCycle", "edges": [
                        "%s.%s -> %s.%s" % (names[a[0] - 1], names[a[1] - 1], names[b[0] - 1], names[b[1] - 1])
                        for (a, b) in [(e[0], e[1]) if len(e) == 2 else ((e[0], e[1]), e[2]) for e in verdict["v_edges"]]]}]

        # ---- dynamic
        st = fut_stress.result()
        runs = [st]

        fields_at = {}
        for x in (data["facts"] if data else []):
            if x["kind"] == "access":
                fields_at.setdefault((x["file"], x["line"]), set()).add(x.get("st", "") + "." + x["fld"])

        def classify(st):
            bad, hits = [], {}
            for r in st["reports"]:
                e = attribute(r, known, fields_at)
                if e is None:
                    bad.append(r)
                else:
                    hits[e["id"]] = hits.get(e["id"], 0) + 1
            return bad, hits

        unattributed, dyn_hits = classify(st)
        # a new static site: look harder for a concrete failing schedule
        if new_sites and not (unattributed or st["panic"] or st["hang"]) and st["built"]:
            extra = run_stress(work, seed + 1, 8000 if quick else 60000)
            runs.append(extra)
            b2, h2 = classify(extra)
            unattributed += b2
            for k, n in h2.items():
                dyn_hits[k] = dyn_hits.get(k, 0) + n
            if extra["panic"] or extra["hang"]:
                st = extra
        if not quick and st["built"] and not new_sites:
            for i, mode in enumerate(["rollout-vs-request", "rollout-vs-drain", "rollout-vs-remove", "rollout-vs-deploy",
                                      "probe-vs-drain", "hijack-vs-drain", "tls-vs-request", "pause-vs-snapshot",
                                      "dispose-vs-waiter", "logheaders"]):
                s2 = run_stress(work, seed + 10 + i, 3000, mode="site:" + mode)
                runs.append(s2)
                b2, h2 = classify(s2)
                unattributed += b2
                for k, n in h2.items():
                    dyn_hits[k] = dyn_hits.get(k, 0) + n
                if (s2["panic"] or s2["hang"]) and not (st["panic"] or st["hang"]):
                    st = s2

        for e in known:
            if e["id"] in known_hit or e["id"] in dyn_hits:
                how = []
                if e["id"] in known_hit:
                    how.append("flagged by check_guarded")
                if e["id"] in dyn_hits:
                    how.append("%d race report(s)" % dyn_hits[e["id"]])
                res.known_finding("%s: %s %s %s [%s]%s" % (e["id"], e["function"], e["kind"], e["field"], ", ".join(how),
                                                            " fix: " + e["patch"] if e.get("patch") else ""))

        # ---- evidence
        stats = verdict["v_stats"] if verdict else {}
        names = data["names"] if data else []
        def lk(l):
            return "%s.%s" % (names[l[0] - 1], names[l[1] - 1])
        edges = []
        if verdict:
            for e in verdict["v_edges"]:
                a, b = (e[0], e[1]) if len(e) == 2 else ((e[0], e[1]), e[2])
                edges.append("%s -> %s" % (lk(a), lk(b)))
        n_obl = res.coverage.get("obligations", 0)
        res.coverage["obligations"] = n_obl + 2
        res.coverage["theorems"] = res.coverage.get("theorems", []) + [
            "facts_guarded (vm_compute on the regenerated facts: unexplained names known (check_guarded names facts kamal_discipline) = [])",
            "facts_acyclic (vm_compute on the regenerated facts: lock_order_acyclic facts = true)"]
        dis = res.coverage.get("discharged", 0)
        if static_ok and verdict:
            dis += (1 if not [s for s in new_sites if s.get("kind") != "LockOrderCycle"] else 0) + (1 if verdict["v_acyclic"] == "true" else 0)
        res.coverage["discharged"] = dis
        res.coverage["checker_cmd"] += " ; lockfacts <tree> -> LockFacts.v ; coqc C18eval.v (verdict_of by vm_compute + the two obligations)"
        ops_total = sum(r["ops"] for r in runs)
        reports_total = sum(len(r["reports"]) for r in runs)
        distinct_pairs = {summarise(r) for rr in runs for r in rr["reports"]}
        res.coverage.update({
            "evaluations": ops_total + (stats.get("n_accesses", 0) if stats else 0),
            "distinct_nontrivial": (stats.get("n_guarded_checked", 0) if stats else 0) + len(distinct_pairs),
            "rule": "static: every struct-field access fact of the regenerated LockFacts.v is an evaluation; non-trivial = reachable "
                    "from a concurrent root, not private, and of a Guarded field (the lock is actually looked for). dynamic: every "
                    "completed operation of the -race stress is an evaluation; distinct = distinct (access site / access site) pairs "
                    "reported by the race detector",
            "facts": {k[2:] if k.startswith("n_") else k: v for k, v in (stats or {}).items()},
            "lock_order_edges": edges,
            "construction_phase_functions": [names[i - 1] for i in verdict["v_ctors"]] if verdict else [],
            "flagged_sites": ["%s %s %s %s:%s%s" % (d.get("function", ""), d.get("rw", ""), d.get("field", d.get("what", "")),
                                                     d.get("file", ""), d.get("line", ""),
                                                     "" if d in new_sites else " (known)") for d in flagged],
            "flagged_known": sorted(known_hit), "flagged_new": new_sites,
            "known_not_flagged": sorted(e["id"] for e in known if not e.get("dynamic_only") and e["id"] not in known_hit),
            "translator_selftest": "ok" if self_ok else "FAILED",
            "stress": [{"mode": r["mode"], "seed": r["seed"], "ms": r["ms"], "ops": r["ops"], "op_counts": r["op_counts"],
                        "race_reports": len(r["reports"]), "panic": bool(r["panic"]), "hang": bool(r["hang"])} for r in runs],
            "race_reports_total": reports_total, "race_reports_unattributed": len(unattributed),
            "race_reports_by_known_finding": dyn_hits,
            "samples": ([{"fact": f} for f in (data["facts"][:1] + [x for x in data["facts"] if x["kind"] == "access" and x.get("held")][:2])] if data else [])
                       + [{"race_report": summarise(r)} for r in runs[0]["reports"][:3]],
        })
        res.assumptions = [
            "the translator harness/lockfacts is trusted: locks are identified by (struct type, mutex field), i.e. x.mu guards x.f is assumed to "
            "mean the same instance x; held sets are lexical (Lock / defer Unlock / explicit Unlock / with...Lock helpers) plus what every call "
            "path holds; interface calls resolve to every implementation in the package; only struct fields and package variables are "
            "locations (not captured locals, not slice / map elements shared between copies of a struct)",
            "the exact contract assumed of the translator is the hypothesis list of props/C18.v c18_no_race and c18_no_deadlock",
            "fields classed ByOrder / Confined in model/Locks.v kamal_discipline (ordered by go statement, WaitGroup, channel; per-request objects) "
            "are exempt by rule; sync/atomic, sync.WaitGroup, sync.Once, channels are synchronisation points by rule",
            "startup / shutdown code not reachable from a concurrent root (Server.Start, RestoreLastSavedState called from cmd) is not checked",
            "no-panic is proved on the sequential model M4 (props/C18seq.v); concurrent panics and deadlocks on channels are only searched "
            "for by the -race stress (real scheduler, scripted probe and target transports), which also cannot show absence of races",
        ]

        # ---- verdict
        def payload(what, **kw):
            p = {"property": "C18", "what": what, "seed": seed, "tier": tier, "replay_cmd": replay_cmd(st)}
            p.update(kw)
            return p

        dyn_fail = None
        if st["panic"]:
            dyn_fail = ("panic", payload("panic during the concurrent stress", report=st["panic"]))
        elif st["hang"]:
            dyn_fail = ("hang", payload("no operation finished for 20 s (deadlock?): goroutine dump", report=st["hang"]))
        elif unattributed:
            dyn_fail = ("race", payload("data race not attributable to a known site: " + summarise(unattributed[0]),
                                        report=unattributed[0]["text"][:12000],
                                        other_unattributed=[summarise(r) for r in unattributed[1:20]]))
        if new_sites:
            if dyn_fail:
                dyn_fail[1]["flagged_new"] = new_sites
                res.violation("site-" + dyn_fail[0], dyn_fail[1])
            else:
                res.violation("site", payload("check_guarded / lock_order_acyclic flag a site that is not a known finding; the -race "
                                              "stress found no failing schedule for it", flagged_new=new_sites,
                                              stress_ops=ops_total), no_input=True)
        elif dyn_fail:
            res.violation(dyn_fail[0], dyn_fail[1])
        elif not (proofs_ok and static_ok and self_ok and st["built"] and data is not None):
            what = ("proof obligations of props/C18.v do not check" if not proofs_ok else
                    "the translator does not build / run on the tree" if data is None else
                    "the translator's unit cases fail" if not self_ok else
                    "the checker could not be evaluated on the regenerated facts" if not static_ok else
                    "the -race harness does not build / run against the tree")
            res.violation("broken", payload(what, coq_output=(blog + pa)[-3000:] if not proofs_ok else "",
                                            translator_output=(tout or "")[-3000:] if data is None else "",
                                            selftest_output=self_log[-3000:] if not self_ok else "",
                                            eval_output=eval_log[-3000:] if not static_ok else "",
                                            harness_output=st["out"][-3000:] if not st["built"] else ""), no_input=True)
        return res.finish()
    finally:
        work.cleanup()
