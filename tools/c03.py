"""C03 — when deploy, pause or stop returns, the drained targets are quiescent."""
import forced
import m5
from m5check import run_property

SEC, MS = m5.SEC, m5.MS
BEH = ["reply", "reply", "delay:%d" % (500 * MS), "delay:%d" % (1 * SEC - 1), "delay:%d" % (1 * SEC), "delay:%d" % (1 * SEC + 1),
       "delay:%d" % (3 * SEC - 1), "delay:%d" % (3 * SEC), "delay:%d" % (3 * SEC + 1), "delay:%d" % (8 * SEC), "hang", "hang", "upgrade", "upgrade",
       "upgrade:%d" % (500 * MS), "upgrade:%d" % (2 * SEC), "stream:%d" % (2 * SEC), "stream:%d" % (5 * SEC)]
PROFILES = [
    {"requests": 2.5, "deploys": 1.5, "pause": 1.2, "rollout": 0.3, "remove": 0, "flap": 0.4, "flap_targets": False, "behaviours": BEH,
     "fail_deploys": 0.1, "yields": 0.8, "initial_all": True, "cooldown": 9 * SEC, "actions": (25, 70), "drain_timeouts": [0, 1, 1 * SEC, 3 * SEC, 3 * SEC],
     "points": ["req:routed", "req:gate-passed", "req:lb-picked", "req:claimed", "deploy:installed", "drain:marked",
                "pause:gate-set", "probe:applied"]},
    {"requests": 3.0, "deploys": 2.0, "pause": 1.0, "rollout": 0.0, "remove": 0, "flap": 0, "flap_targets": False, "behaviours": BEH,
     "fail_deploys": 0.0, "yields": 0.0, "services": [b"web"], "initial_all": True, "cooldown": 9 * SEC, "actions": (25, 70), "drain_timeouts": [0, 1 * SEC, 3 * SEC]},
]


def race_stress(res, work, tier):
    """requests arriving as a drain begins, real scheduler: an accepted request is cut off by the drain or was refused"""
    from vlib import go_test, read_jsonl
    import os
    rounds = 300 if tier == "quick" else 5000
    rc, out = go_test(work, ["common_test.go", "c03_race_test.go"], "^TestVerifC03Race$",
                      {"VERIF_OUT": work.path("c03race.jsonl"), "VERIF_ROUNDS": str(rounds)}, timeout=900)
    if rc != 0 or not os.path.exists(work.path("c03race.jsonl")):
        return False, [], out
    rows = read_jsonl(work.path("c03race.jsonl"))
    bad = [r for r in rows if r["accepted_not_cut_off"] != 0]
    res.coverage["drain_race_stress"] = {"rounds": len(rows), "claimers_per_round": 12,
                                         "accepted": sum(r["accepted"] for r in rows), "refused": sum(r["refused"] for r in rows),
                                         "rounds_with_an_accepted_request_missed_by_the_drain": len(bad)}
    return True, bad, out


def run(tier, seed):
    import m5check
    m5check.TIME_VIEW = True        # C03's traces must also be behaviours of the timing view (command-level theorems C03cmd.v)
    m5check.CMD_VIEW = True         # ... and, recorded with the exact command <-> drain linkage events, of model/M5cmd.v (C03link.v)
    m5.LINK_EVENTS = True
    return run_property(
        "C03", tier, seed, ["C03.v", "C03cmd.v", "C03link.v"], "C03corr", "c03_check", PROFILES, n_quick=36, n_thorough=1200,
        codes={"1": "a request was still being served by a drained target when the command returned (not cut off)",
               "2": "a request was sent to a drained target after the command returned",
               "3": "a request was cut off before mark + drain timeout", "4": "a cut-off request was not answered 504",
               "5": "a request a drain had cut off (upgraded: when draining began; others: at the deadline) was still being served afterwards"},
        finding_id="C03-D2D3-stale-request",
        finding_what="a request that was already routed (deploy) / past the pause gate (pause, stop) when the command switched the "
                     "table / the gate reaches a drained target after the command returned",
        assumptions=["every lock region of the Go code is one atomic step (runs use GOMAXPROCS(1); data-race freedom is C18's concern)",
                     "'cut off' = the proxy cancelled the request context; how fast net/http then closes the upstream connection is not modelled",
                     "upgraded connections are in-memory (an upgraded request = the target answered 101 and the proxy took the client connection over)",
                     "overlapping commands on one service (second Drain returns at once) are outside the property's quantifier"],
        forced=[forced.d2_served_by_replaced(), forced.d3_served_while_paused(), forced.pause_drains_stopped_rollout(), forced.drain_grants_the_drain_timeout(),
                forced.drain_covers_unhealthy_targets(), forced.pause_covers_unhealthy_targets(),
                forced.drain_cuts_connections_upgraded_during_the_drain(), forced.pause_after_stop_still_holds(),
                forced.pause_after_stop_still_holds(first_pause=True), forced.rollout_redeploy_grants_the_drain_timeout(),
                forced.rollout_redeploy_grants_the_drain_timeout(deploy_timeout=5 * SEC, drain_timeout=SEC),
                forced.stop_without_message_fails_the_held_requests(), forced.drain_outlasts_the_target_timeout(),
                forced.drain_outlasts_the_target_timeout(stop=True), forced.redeploy_of_the_same_target_names(),
                forced.redeploy_of_the_same_target_names(upgraded=True)], extra=race_stress)
