"""Helpers shared by c08.py and c16.py on top of m4.py: running scenarios with
an own harness file list, evaluating per-history Coq expressions of any
(first-order) result type, parsing printed Coq values, compressed literals."""
import contextlib
from concurrent.futures import ThreadPoolExecutor

import m4
from vlib import *

SIM_FILES = ["common_test.go", "sim_test.go", "simrun_test.go", "assets_test.go"]


def go_run(work, scenarios, extra_files=()):
    """Run scenarios on the real code (virtual clock).  Returns (ok, go output, outs)."""
    write_jsonl(work.path("scen.jsonl"), scenarios)
    out_path = work.path("simout.jsonl")
    if os.path.exists(out_path):
        os.remove(out_path)
    rc, gout = go_test(work, SIM_FILES + list(extra_files), "^TestVerifSim$",
                       {"VERIF_IN": work.path("scen.jsonl"), "VERIF_OUT": out_path}, synctest=True)
    import vlib
    vlib.note_crash(out_path, scenarios, rc, gout)
    if rc != 0 or not os.path.exists(out_path):
        return False, gout, []
    outs = read_jsonl(out_path)
    note_panics(scenarios, outs)
    return len(outs) == len(scenarios), gout, outs


# ---------------------------------------------------------- Coq values ----

class CoqParseError(RuntimeError):
    pass


def parse_coq_value(txt):
    """Parse a printed Coq value built from lists, tuples, numbers (with optional
    %nat / %N / %Z), booleans, None/Some and byte constructors "x.."-free data.
    Lists -> python lists, tuples -> python tuples.  Strict."""
    toks = re.findall(r"\[|\]|\(|\)|;|,|-?\d+(?:%[A-Za-z]+)?|true|false|None|Some|nil|\S", txt)
    pos = [0]

    def peek():
        return toks[pos[0]] if pos[0] < len(toks) else None

    def take(t=None):
        x = peek()
        if x is None or (t is not None and x != t):
            raise CoqParseError("expected %r at token %d, got %r in %s" % (t, pos[0], x, txt[:200]))
        pos[0] += 1
        return x

    def atom():
        x = peek()
        if x == "[":
            take("[")
            items = []
            if peek() == "]":
                take("]")
                return items
            while True:
                items.append(expr())
                if peek() == ";":
                    take(";")
                    continue
                take("]")
                return items
        if x == "(":
            take("(")
            items = [expr()]
            while peek() == ",":
                take(",")
                items.append(expr())
            take(")")
            return items[0] if len(items) == 1 else tuple(items)
        if x in ("true", "false"):
            take()
            return x == "true"
        if x == "nil":
            take()
            return []
        if x == "None":
            take()
            return None
        if x is not None and re.fullmatch(r"-?\d+(?:%[A-Za-z]+)?", x):
            take()
            return int(x.split("%")[0])
        raise CoqParseError("unexpected token %r in %s" % (x, txt[:200]))

    def expr():
        if peek() == "Some":
            take("Some")
            return ("Some", atom())
        return atom()

    v = expr()
    if pos[0] != len(toks):
        raise CoqParseError("trailing tokens in " + txt[:200])
    return v


def coq_map(work, imports, defs, items, expr, tag, shard=10, timeout=1800):
    """items: Coq terms of one type T; expr: Coq function on T.  Evaluates
    `map expr items` by vm_compute in shards; returns the parsed results."""
    jobs = [(s, items[s:s + shard]) for s in range(0, len(items), shard)]

    def ev(job):
        s, terms = job
        body = defs + "\nDefinition xs := [\n%s].\n" % ";\n".join(terms)
        body += "Definition R := Eval vm_compute in map (%s) xs.\n" % expr
        return s, coq_eval(work, "%s_%d" % (tag, s), imports, body, "R", timeout=timeout)
    out = [None] * len(items)
    with ThreadPoolExecutor(max_workers=16) as ex:
        for s, txt in ex.map(ev, jobs):
            vals = parse_coq_value(txt)
            if not isinstance(vals, list) or len(vals) != len(items[s:s + shard]):
                raise CoqParseError("expected %d results in shard %d: %s" % (len(items[s:s + shard]), s, txt[:300]))
            for k, v in enumerate(vals):
                out[s + k] = v
    return out


@contextlib.contextmanager
def body_literals(fn):
    """While active, m4 renders byte-string literals through `fn` (used to write
    a 10 KB page body as  pg_pre ++ [middle] ++ pg_suf  instead of 10,000
    constructors; Coq still compares the complete string)."""
    old = m4.str_lit
    m4.str_lit = fn
    try:
        yield
    finally:
        m4.str_lit = old


def go_utf8_width(b, i):
    """Width of the rune at b[i:] as utf8.DecodeRune sees it, and whether it is valid."""
    n = len(b) - i
    c = b[i]
    if c < 0x80:
        return 1, True
    if c < 0xC2 or c > 0xF4:
        return 1, False
    if c < 0xE0:
        need, lo, hi = 2, 0x80, 0xBF
    elif c < 0xF0:
        need, lo, hi = 3, (0xA0 if c == 0xE0 else 0x80), (0x9F if c == 0xED else 0xBF)
    else:
        need, lo, hi = 4, (0x90 if c == 0xF0 else 0x80), (0x8F if c == 0xF4 else 0xBF)
    if n < need or not (lo <= b[i + 1] <= hi):
        return 1, False
    for k in range(2, need):
        if not (0x80 <= b[i + k] <= 0xBF):
            return 1, False
    return need, True


def go_valid_utf8(b):
    i = 0
    while i < len(b):
        w, ok = go_utf8_width(b, i)
        if not ok:
            return False
        i += w
    return True


def go_json_coerce(b):
    """What encoding/json writes (and reads back) for a Go string: every
    undecodable byte becomes U+FFFD."""
    out = bytearray()
    i = 0
    while i < len(b):
        w, ok = go_utf8_width(b, i)
        out += b[i:i + w] if ok else b"\xef\xbf\xbd"
        i += w
    return bytes(out)


def coq_deps(roots):
    """Transitive closure of `From KP Require Import ...` starting at the given
    files (paths relative to coq/, e.g. "props/C08.v")."""
    seen, todo = set(), list(roots)
    while todo:
        f = todo.pop()
        if f in seen:
            continue
        seen.add(f)
        try:
            src = open(os.path.join(COQ, f)).read()
        except OSError:
            continue
        src = re.sub(r"\(\*.*?\*\)", "", src, flags=re.S)
        for m in re.finditer(r"From\s+KP\s+Require\s+(?:Import|Export)\s+(.*?)\.(?=\s|$)", src, flags=re.S):
            for mod in m.group(1).split():
                todo.append(mod.replace(".", "/") + ".v")
    return seen


def gate_for(roots):
    """coq_gate() restricted to the files the given roots depend on (other
    properties' files may be under construction by other checks)."""
    deps = coq_deps(roots)
    names = {os.path.basename(d) for d in deps}
    paths = {os.path.join(COQ, d) for d in deps}
    out = []
    for h in coq_gate():
        where = h.split(":", 1)[0]
        if where in paths or (os.sep not in where and where in names):
            out.append(h)
    return out
