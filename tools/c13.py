"""C13 — transparency of the proxy: correspondence of model/Url.v + model/Headers.v
with the real handler chain (raw loopback client -> Server.buildHandler chain ->
Router -> Target/ReverseProxy -> raw TCP echo backend), the monitor of
corr/C13corr.v evaluated in the Coq kernel on every observed exchange, and the
proof obligations of props/C13.v."""
import gzip
import random
from concurrent.futures import ThreadPoolExecutor

from vlib import *

PROP = "C13"

# ------------------------------------------------------------ configuration ----

SERVICES = [
    {"name": "s_app", "id": 1, "hosts": ["strip.test"], "prefixes": ["/app"], "strip": True, "forward": False, "tls": False},
    {"name": "s_api", "id": 2, "hosts": ["strip.test"], "prefixes": ["/app/api"], "strip": True, "forward": True, "tls": False},
    {"name": "s_root", "id": 3, "hosts": ["strip.test"], "prefixes": ["/"], "strip": True, "forward": False, "tls": False},
    {"name": "k_app", "id": 4, "hosts": ["keep.test"], "prefixes": ["/app", "/~u;v=1"], "strip": False, "forward": True, "tls": False},
    {"name": "k_root", "id": 5, "hosts": ["keep.test"], "prefixes": ["/"], "strip": False, "forward": False, "tls": False},
    {"name": "t_root", "id": 6, "hosts": ["tls.test"], "prefixes": ["/"], "strip": False, "forward": False, "tls": True},
    {"name": "t_app", "id": 7, "hosts": ["tls.test"], "prefixes": ["/app"], "strip": True, "forward": True, "tls": False},
    {"name": "w_root", "id": 9, "hosts": ["slow.test"], "prefixes": ["/"], "strip": False, "forward": False, "tls": False,
     "target_timeout_ms": 250},      # a short target timeout: it bounds the wait for the response HEADERS only
    {"name": "x_mix", "id": 10, "hosts": ["mix.test"], "prefixes": ["/", "/app"], "strip": True, "forward": False, "tls": False},   # root AND a sub-path, stripping
    {"name": "m_sub", "id": 8, "hosts": ["multi.test"], "prefixes": ["/a!b", "/x/y/z"], "strip": True, "forward": False, "tls": False},
]
SVC_ID = {s["name"]: s["id"] for s in SERVICES}
HOSTS = sorted({h for s in SERVICES for h in s["hosts"]})


def bindings_for(hostport):
    """The (prefix, service) bindings net/http Host -> ServiceMap gives this request,
    longest prefix first (router order).  Exact host names only are configured."""
    host = hostport
    if hostport.find(":") > 0:
        host = hostport.rsplit(":", 1)[0]
    out = []
    for s in SERVICES:
        if host in s["hosts"]:
            for p in s["prefixes"]:
                out.append((p, s))
    out.sort(key=lambda ps: -len(ps[0]))
    return out


# --------------------------------------------------------------- generator ----

PLAIN = [b"a", b"b1", b"index.html", b"~u", b"x-y_z", b"app", b"api", b"v1"]
ENCODED = [b"a%2Fb", b"%25", b"a%20b", b"%C3%A9", b"x%2fy", b"%41", b"%7Euser", b"x%3Fy", b"%2E%2E", b"%00", b"%FF", b"a%2Bb"]
RESERVED = [b";v=1", b"a,b", b"k=v", b"@me", b"a:b", b"$x", b"&y", b"a+b", b"!x", b"*", b"'q'", b"(p)", b"[x]", b"a;b=c,d"]
DOTS = [b".", b"..", b""]
INVALID_PCHAR = [b'"', b"<", b">", b"\\", b"^", b"`", b"{", b"|", b"}", b"#", b"\xc3\xa9", b"\x80", b"\xff"]
QUERY_PIECES = [b"a=1", b"b", b"c=d;e", b"f=%zz", b"%", b"g=%C3%A9", b"h=a+b", b"=", b"", b"q=?x", b"x=/y", b";",
                b"a=b=c", b"\xc3\xa9=1", b"k=%2", b"sp=a%20b", b"arr[]=1", b"#frag", b"j={\"a\":1}"]
METHODS = ["GET"] * 10 + ["POST"] * 4 + ["PUT", "DELETE", "PATCH", "OPTIONS", "HEAD", "PURGE", "M-SEARCH", "get"]


def hx(b):
    return (b if isinstance(b, bytes) else b.encode("latin1")).hex()


def gen_path(rnd, host, cls):
    """Raw path for the given class of case."""
    prefixes = [p for p, _ in bindings_for(host) if p != "/"]
    segs = []
    lead = b""
    how = rnd.random()
    if prefixes and how < 0.62:
        pre = rnd.choice(prefixes).encode()
        v = rnd.random()
        if v < 0.70:
            lead = pre                                      # spelled literally
        elif v < 0.80:
            i = rnd.randrange(1, len(pre))                  # one byte of the prefix percent-encoded
            while pre[i:i + 1] == b"/":
                i = rnd.randrange(1, len(pre))
            lead = pre[:i] + (b"%%%02X" % pre[i]) + pre[i + 1:]
        elif v < 0.90:
            lead = pre + rnd.choice([b"le", b"2", b"-x", b".json", b";x", b"%2Fx", b"%2f"])   # look-alike / encoded separator
        else:
            lead = pre[:-1] if len(pre) > 2 else pre + b"x"  # shorter look-alike
    n = rnd.choice([0, 0, 1, 1, 2, 2, 3, 4])
    for _ in range(n):
        r = rnd.random()
        pool = PLAIN if r < 0.35 else ENCODED if r < 0.65 else RESERVED if r < 0.88 else DOTS
        segs.append(rnd.choice(pool))
    path = lead + b"".join(b"/" + s for s in segs)
    if rnd.random() < 0.25:
        path += b"/"
    if rnd.random() < 0.08:
        path = path.replace(b"/", b"//", 1)
    if not path:
        path = b"/"
    if cls == "invalid_pchar":
        i = rnd.randrange(1, len(path) + 1)
        path = path[:i] + rnd.choice(INVALID_PCHAR) + path[i:]
    return path


def gen_query(rnd):
    r = rnd.random()
    if r < 0.40:
        return b""
    if r < 0.46:
        return rnd.choice([b"?", b"??", b"?&", b"?%", b"?;"])
    return b"?" + b"&".join(rnd.choice(QUERY_PIECES) for _ in range(rnd.randint(1, 4)))


def gen_malformed_target(rnd, host):
    path = gen_path(rnd, host, "valid")
    query = gen_query(rnd)
    k = rnd.random()
    if k < 0.45:                          # broken percent escape somewhere in the path
        bad = rnd.choice([b"%", b"%z", b"%4", b"%zz", b"%G0", b"%0g", b"%%"])
        i = rnd.randrange(1, len(path) + 1)
        if bad in (b"%", b"%4") and i < len(path):
            i = len(path)                 # "%" / "%4" are only malformed at the end of the path
        return path[:i] + bad + path[i:] + query
    if k < 0.75:                          # control bytes (never CR, LF or space: those break the request line itself)
        base = path + query
        i = rnd.randrange(0, len(base) + 1)
        return base[:i] + rnd.choice([b"\x01", b"\x7f", b"\x09", b"\x00", b"\x1f", b"\x0b"]) + base[i:]
    if k < 0.92:
        return rnd.choice([b"app/x", b"x", b"%2Fapp", b"app", b"~u/x?y", b".."])     # no leading slash, no scheme
    return b"*"


def gen_headers(rnd, cls, method):
    """Client header lines (without Host and the case marker), as (name, value) bytes."""
    h = []

    def add(n, v):
        h.append((n if isinstance(n, bytes) else n.encode(), v if isinstance(v, bytes) else v.encode()))
    if cls == "ua":
        if rnd.random() < 0.5:
            add("User-Agent", "")
        else:
            add("User-Agent", "first/1"); add("user-agent", "second/2")
    elif rnd.random() < 0.7:
        add(rnd.choice(["User-Agent", "user-agent", "USER-AGENT"]), rnd.choice(["curl/8.5.0", "Mozilla/5.0 (X11; Linux) é".encode("utf8"), "x"]))
    if rnd.random() < 0.5:
        add(rnd.choice(["Accept-Encoding", "accept-encoding"]), rnd.choice(["gzip", "gzip, br", "identity", "br;q=1.0, *;q=0"]))
    elif rnd.random() < 0.03:
        add("Accept-Encoding", "")
    if rnd.random() < 0.05:
        add("Range", "bytes=0-9")
    for _ in range(rnd.choice([0, 1, 1, 2, 3, 5])):
        n = rnd.choice(["Accept", "accept-LANGUAGE", "X-Custom-ONE", "x_under", "Cookie", "Authorization", "X-Multi",
                        "x-multi", "X-MULTI", "If-None-Match", "Referer", "x-e`mpty|~", "Via", "X-Real-Ip", "Origin"])
        v = rnd.choice([b"*/*", b"en;q=0.8, de", b"v", b"", b"a=1; b=2", b"Bearer abc.def", b"a, b", b"\"etag\"", b"k\xc3\xa9y",
                        b"x  y", b"1.2.3.4", b"http://o.example/?a=b;c", b"L" * rnd.choice([255, 256, 1023, 1025, 4096, 8000])])
        add(n, v)
    r = rnd.random()
    if r < 0.40:                         # client-supplied forwarding headers
        for _ in range(rnd.choice([1, 1, 2])):
            add(rnd.choice(["X-Forwarded-For", "x-forwarded-for"]), rnd.choice(["1.2.3.4", "10.0.0.1, 10.0.0.2", "unknown", "", "::1"]))
        if rnd.random() < 0.7:
            add(rnd.choice(["X-Forwarded-Proto", "x-forwarded-proto"]), rnd.choice(["https", "http", "", "ftp"]))
            if rnd.random() < 0.2:
                add("X-Forwarded-Proto", "wss")
        if rnd.random() < 0.7:
            add("X-Forwarded-Host", rnd.choice(["evil.example", "", "a.example:8443"]))
        if rnd.random() < 0.4:
            add(rnd.choice(["Forwarded", "forwarded"]), "for=1.2.3.4;proto=https")
    r = rnd.random()
    if r < 0.25:
        add(rnd.choice(["X-Request-Id", "x-request-id", "X-Request-ID"]),
            rnd.choice(["abc-123", "7", "not a uuid", "not a uuid", "r" * rnd.choice([36, 200, 255, 256, 257, 313, 1024, 4000])]))
        if rnd.random() < 0.15:
            add("X-Request-Id", "second")
    elif r < 0.33:
        add("X-Request-Id", "")
        if rnd.random() < 0.3:
            add("X-Request-Id", "after-empty")
    r = rnd.random()
    if r < 0.15:
        add(rnd.choice(["X-Request-Start", "x-request-start"]), rnd.choice(["t=1700000000.123", "1700000000123"]))
    elif r < 0.20:
        add("X-Request-Start", "")
    r = rnd.random()
    if r < 0.22:                         # hop-by-hop material
        k = rnd.random()
        if k < 0.35:
            add(rnd.choice(["Connection", "connection"]), rnd.choice(["keep-alive", "X-Hop, keep-alive", "x-hop ,, X-Other", "close", "x hop"]))
            add("X-Hop", "1")
            if rnd.random() < 0.5:
                add("X-Other", "2")
        elif k < 0.5:
            add("Keep-Alive", "timeout=5")
        elif k < 0.65:
            add("Proxy-Authorization", "Basic eDp5")
        elif k < 0.8:
            add(rnd.choice(["TE", "Te"]), rnd.choice(["gzip", "deflate;q=0.5"]))
        elif k < 0.9:
            add("Upgrade", "foo/2")
        else:
            add("Proxy-Connection", "keep-alive")
    if cls == "conn_id":
        add("Connection", rnd.choice(["x-request-id", "X-Request-Start", "x-request-id, x-request-start"]))
    if rnd.random() < 0.04:
        add("Pragma", rnd.choice(["no-cache", "x"]))
        if rnd.random() < 0.4:
            add("Cache-Control", "max-age=0")
    rnd.shuffle(h)
    return h


def rand_body(rnd, big_ok=True):
    r = rnd.random()
    if r < 0.25:
        return b""
    if big_ok and r > 0.985:
        n = rnd.choice([4096, 5000])
    else:
        n = rnd.randint(1, 120)
    k = rnd.random()
    if k < 0.4:
        return bytes(rnd.randrange(256) for _ in range(n))
    if k < 0.7:
        return (b"{\"k\":\"v\",\"n\":[1,2,3]}\r\n" * (n // 20 + 1))[:n]
    return (b"<html><body>h\xc3\xa9llo</body></html>\n" * (n // 30 + 1))[:n]


def gen_response(rnd, cls, client_headers, method):
    status = rnd.choice([200] * 14 + [201, 202, 204, 206, 301, 302, 304, 400, 401, 403, 404, 418, 422, 429, 451, 499,
                                     500, 502, 503, 504, 599, 299, 600, 999])
    nobody = status in (204, 304)
    body = b"" if nobody else rand_body(rnd)
    hs = []

    def add(n, v):
        hs.append((n if isinstance(n, bytes) else n.encode(), v if isinstance(v, bytes) else v.encode()))
    first_ae = next((v for n, v in client_headers if n.lower() == b"accept-encoding"), None)
    has_range = any(n.lower() == b"range" for n, v in client_headers)
    transport_asks_gzip = (not first_ae) and not has_range and method != "HEAD"
    gunzipped = None
    if cls == "gzip" and not nobody:
        plain = rand_body(rnd, big_ok=False) or b"plain"
        body = gzip.compress(plain, mtime=0)
        add(rnd.choice(["Content-Encoding", "content-encoding"]), rnd.choice(["gzip", "GZIP"]))
        gunzipped = plain
        add("Content-Type", "text/plain")
    elif not nobody and rnd.random() < 0.05 and not transport_asks_gzip:
        # the client asked for an encoding itself: passes through untouched
        body = gzip.compress(body or b"x", mtime=0)
        add("Content-Encoding", "gzip")
        gunzipped = None
    elif not nobody and rnd.random() < 0.03:
        add("Content-Encoding", "br")
    if cls == "no_ctype":
        if not body and not nobody:
            body = b"<html>sniff me</html>"
    elif body or rnd.random() < 0.5:
        if not any(n.lower() == b"content-type" for n, _ in hs):
            add(rnd.choice(["Content-Type", "content-type", "CONTENT-TYPE"]),
                rnd.choice(["text/html; charset=utf-8", "application/json", "application/octet-stream", "", "x/y"]))
    for _ in range(rnd.choice([0, 1, 2, 3, 4])):
        n = rnd.choice(["Set-Cookie", "set-cookie", "Location", "ETag", "Cache-Control", "X-Odd_Name", "Server", "Vary",
                        "X-Multi", "x-MULTI", "Www-Authenticate", "Content-Language", "X-Frame-Options", "Link", "Age"])
        v = rnd.choice([b"a=1; Path=/", b"b=2; HttpOnly", b"/next?x=1;y", b"W/\"1\"", b"no-store", b"", b"v\xc3\xa9", b"a, b",
                        b"Basic realm=\"x\"", b"42", b"</style.css>; rel=preload", b"c=" + b"z" * rnd.choice([255, 256, 4000])])
        add(n, v)
    if rnd.random() < 0.3:
        add("Date", rnd.choice(["Tue, 15 Nov 1994 08:12:31 GMT", "yesterday"]))
    r = rnd.random()
    if r < 0.12:
        add("Connection", rnd.choice(["X-Resp-Hop", "keep-alive", "x-resp-hop, X-Gone"]))
        add("X-Resp-Hop", "1")
        if rnd.random() < 0.5:
            add("X-Gone", "2")
    elif r < 0.18:
        add("Keep-Alive", "timeout=5")
    elif r < 0.22:
        add("Proxy-Authenticate", "Basic")
    rnd.shuffle(hs)
    wire_body = b"" if (method == "HEAD" or nobody) else body
    if gunzipped is not None and (not wire_body):
        gunzipped = None
    early = []
    if rnd.random() < 0.10:      # informational responses ahead of the final one (Early Hints, Processing)
        for _ in range(rnd.choice([1, 1, 2])):
            es = rnd.choice([103, 103, 102])
            early.append({"status": es, "headers": [[hx(b"Link"), hx(b"</s.css>; rel=preload")]] if es == 103 else []})
    return {"status": status, "reason": hx(rnd.choice(["OK", "Fine", "", "Whatever It Is"])), "early": early,
            "headers": [[hx(n), hx(v)] for n, v in hs], "body": hx(body),
            "framing": rnd.choice(["cl", "cl", "chunked"]),
            "_wire_body": hx(wire_body), "_gunzipped": None if gunzipped is None else hx(gunzipped)}


CLASSES = [("valid", 0.80), ("malformed", 0.08), ("invalid_pchar", 0.04), ("no_ctype", 0.02), ("gzip", 0.02),
           ("ua", 0.02), ("conn_id", 0.02)]


def build_raw(method, target, host, headers, body, chunked, cid):
    raw = method.encode() + b" " + target + b" HTTP/1.1\r\n"
    lines = [(b"Host", host.encode()), (b"X-Verif-Case", b"%d" % cid)]
    pos = 0
    out = list(headers)
    # the two fixed lines go to generated positions among the others
    out.insert(min(len(out), cid % 3), lines[0])
    out.insert(min(len(out), (cid // 3) % 4), lines[1])
    for n, v in out:
        raw += n + b": " + v + b"\r\n"
    if chunked:
        raw += b"Transfer-Encoding: chunked\r\n\r\n"
        i = 0
        sizes = [5, 1, 64, 1 << 20]
        k = 0
        while i < len(body):
            n = min(sizes[k % len(sizes)], len(body) - i)
            raw += b"%x\r\n" % n + body[i:i + n] + b"\r\n"
            i += n
            k += 1
        raw += b"0\r\n\r\n"
    elif body or method in ("POST", "PUT", "PATCH"):
        raw += b"Content-Length: %d\r\n\r\n" % len(body) + body
    else:
        raw += b"\r\n"
    return raw


def make_case(rnd, cid, cls, fixed=None):
    fixed = fixed or {}
    host = fixed.get("host") or rnd.choice(["strip.test"] * 5 + ["keep.test"] * 3 + ["tls.test"] * 3 + ["multi.test"] * 2
                                           + ["strip.test:8080", "keep.test:80", "nosuch.test", "STRIP.test"])
    bare = host.split(":")[0]
    tls = fixed.get("tls", bare == "tls.test" and ":" not in host and rnd.random() < 0.6)
    method = fixed.get("method") or rnd.choice(METHODS)
    if cls == "malformed":
        target = gen_malformed_target(rnd, host)
    else:
        target = gen_path(rnd, host, cls) + gen_query(rnd)
    target = fixed.get("target", target)
    if target == b"*" and method == "OPTIONS":
        method = "GET"          # "OPTIONS *" is answered by net/http's server itself, it never reaches the handler chain
    headers = fixed.get("headers")
    if headers is None:
        headers = gen_headers(rnd, cls, method)
    if cls in ("gzip",):
        headers = [(n, v) for n, v in headers if n.lower() not in (b"accept-encoding", b"range")]
        if method == "HEAD":
            method = "GET"
    body = b""
    chunked = False
    if method in ("POST", "PUT", "PATCH", "PURGE") or (method != "HEAD" and rnd.random() < 0.08):
        body = rand_body(rnd)
        chunked = rnd.random() < 0.2
        if body and rnd.random() < 0.6:
            headers = headers + [(b"Content-Type", rnd.choice([b"application/json", b"application/x-www-form-urlencoded"]))]
    resp = fixed.get("resp") or gen_response(rnd, cls, headers, method)
    raw = build_raw(method, target, host, headers, body, chunked, cid)
    return {"kind": "req", "id": cid, "cls": cls, "tls": bool(tls), "sni": bare, "method": method, "raw": raw.hex(),
            "resp": resp, "_target": hx(target), "_host": host, "_headers": [[hx(n), hx(v)] for n, v in headers],
            "_marker_pos": None, "_body": hx(body), "_chunked": chunked}


def fixed_cases():
    """Hand-derived boundary cases and the witnesses of the refuted lemmas; they run first."""
    ok = {"status": 200, "reason": hx("OK"), "headers": [[hx("Content-Type"), hx("text/plain")]], "body": hx("hello"),
          "framing": "cl", "_wire_body": hx("hello"), "_gunzipped": None}
    T = [("strip.test", b"/app/a%2Fb"), ("strip.test", b"/app"), ("strip.test", b"/app/"), ("strip.test", b"/app?"),
         ("strip.test", b"/app//x"), ("strip.test", b"/apple"), ("strip.test", b"/%61pp/x"), ("strip.test", b"/app%2Fx"),
         ("strip.test", b"/app/a!b"), ("strip.test", b"/app/%7Euser"), ("strip.test", b"/app/[x]"), ("strip.test", b"/app/a%41"),
         ("strip.test", b"/app/api/x%2Fy"), ("strip.test", b"/app/api"), ("strip.test", b"/app/apix"), ("strip.test", b"//app/x"),
         ("strip.test", b"/app/..%2F/x"), ("strip.test", b"/app/app/app"), ("strip.test", b"/a%2Fb"),
         ("strip.test", b"/app/a%20b?x=1;y&%zz"), ("strip.test", b"/app/x??"), ("strip.test", b"/x%"), ("strip.test", b"*"),
         ("keep.test", b"/app/a%2Fb"), ("keep.test", b"/~u;v=1/x%2Fy"), ("keep.test", b"/%7Eu;v=1/x"), ("keep.test", b"/app/a\"b%2F"),
         ("multi.test", b"/a!b/c%2Fd"), ("multi.test", b"/a%21b/c"), ("multi.test", b"/x/y/z"), ("multi.test", b"/x/y/zz"),
         ("multi.test", b"/x/y"), ("tls.test", b"/app/x%2Fy"), ("strip.test", b"/app/a|b%2Fc"), ("strip.test", b"/app/\xc3\xa9%2F")]
    out = []
    for host, t in T:
        out.append({"host": host, "target": t, "resp": dict(ok), "method": "GET", "headers": []})
    # responses that are under way within the target timeout (250 ms for slow.test) but take longer than it to complete: the body
    # arrives in two parts 600 ms apart, with a declared length and chunked - it must reach the client whole
    long_body = bytes(range(256)) * 40
    for k, framing in enumerate(["cl", "chunked", "cl", "chunked"]):
        body = long_body if k < 2 else b"tick\ntock\n"
        out.append({"host": "slow.test", "target": b"/download/%d" % k, "method": "GET", "headers": [],
                    "resp": {"status": [200, 200, 206, 404][k], "reason": hx("OK"), "early": [],
                             "headers": [[hx("Content-Type"), hx("application/octet-stream")]], "body": hx(body), "framing": framing,
                             "pause_ms": 600, "_wire_body": hx(body), "_gunzipped": None}})
    return out


def gen_cases(seed, tier):
    rnd = random.Random(seed)
    n = 1500 if tier == "quick" else 30000
    cases = [{"kind": "config", "services": SERVICES}]
    cid = 1
    for fx in fixed_cases():
        cls = "valid"
        cases.append(make_case(rnd, cid, cls, fx))
        cid += 1
    # one service with the root prefix and a sub-path, prefix stripping on: the matched prefix decides
    for t in (b"/app/show?x=1", b"/app", b"/app/", b"/apple/pie", b"/other/app/x", b"/app/a%2Fb"):
        cases.append(make_case(rnd, cid, "valid", {"host": "mix.test", "target": t, "method": "GET", "headers": []}))
        cid += 1
    # requests IN FLIGHT TOGETHER to one target, each with its own path and query (sent concurrently: "par" groups)
    for g in (1, 2, 3):
        host = ["keep.test", "strip.test", "mix.test"][g - 1]
        for k in range(24):
            t = b"/app/g%d/item-%d/%s?k=%d&%s" % (g, k, b"x" * (k % 7), k, b"q=" + bytes([97 + k % 26]) * (k % 5))
            c = make_case(rnd, cid, "valid", {"host": host, "target": t, "method": "GET", "headers": []})
            c["par"] = g
            cases.append(c)
            cid += 1
    names = [c for c, _ in CLASSES]
    weights = [w for _, w in CLASSES]
    while cid <= n:
        cls = rnd.choices(names, weights)[0]
        cases.append(make_case(rnd, cid, cls))
        cid += 1
    return cases


# -------------------------------------------------------------- projection ----

DROP_TARGET = {b"Host", b"Content-Length", b"Transfer-Encoding"}
DROP_CLIENT = {b"Content-Length", b"Transfer-Encoding", b"Connection"}


def unhex(h):
    return bytes.fromhex(h)


def project(case, o, rid_count):
    """Projected observables of one exchange (what goes into the Coq case)."""
    p = {"client_ip": (o.get("client_ip") or "").encode(), "status": o.get("status") or 0,
         "headers": [(unhex(k), unhex(v)) for k, v in o.get("resp_headers") or [] if unhex(k) not in DROP_CLIENT],
         "body": unhex(o.get("resp_body") or ""), "hit": bool(o.get("hit")), "svc": SVC_ID.get(o.get("svc"), 0),
         "method": b"", "target": b"", "host": b"", "theaders": [], "tbody": b"", "rid_unique": False, "start_in_window": False,
         "early": [e["status"] for e in o.get("early") or []]}
    # an error after the status line (e.g. the server resets the connection after a 400 while request body
    # bytes are unread) leaves status/headers as read; a truncated body then shows as a body mismatch
    if p["hit"]:
        parts = unhex(o["req_line"]).split(b" ")
        if len(parts) == 3 and parts[2] == b"HTTP/1.1":
            p["method"], p["target"] = parts[0], parts[1]
        else:
            p["method"], p["target"] = unhex(o["req_line"]), b""
        hs = [(unhex(k), unhex(v)) for k, v, _ in o["req_headers"]]
        hosts = [v for k, v in hs if k == b"Host"]
        p["host"] = b",".join(hosts)
        p["theaders"] = [(k, v) for k, v in hs if k not in DROP_TARGET]
        p["tbody"] = unhex(o["req_body"])
        rid = next((v for k, v in hs if k == b"X-Request-Id"), None)
        p["rid_unique"] = rid is not None and rid_count.get(rid, 0) == 1 and o.get("hits") == 1
        st = next((v for k, v in hs if k == b"X-Request-Start"), None)
        if st is not None and st.isdigit() and "t0" in o and "t1" in o:
            p["start_in_window"] = o["t0"] - 5 <= int(st) <= o["t1"] + 5
    return p


def hdrs_lit(hs):
    return list_lit(["(%s, %s)" % (str_lit(k), str_lit(v)) for k, v in hs])


def case_term(case, pr):
    host = case["_host"]
    bl = list_lit(["mkBinding %s %d %s %s" % (str_lit(p.encode()), s["id"], bool_lit(s["strip"]), bool_lit(s["forward"]))
                   for p, s in bindings_for(host)])
    rq = "(mkReq %s %s %s %s %s %s)" % (
        str_lit(case["method"].encode()), str_lit(unhex(case["_target"])), str_lit(host.encode()),
        hdrs_lit([(b"X-Verif-Case", b"%d" % case["id"])] + [(unhex(n), unhex(v)) for n, v in case["_headers"]]),
        str_lit(unhex(case["_body"])), bool_lit(case["tls"]))
    r = case["resp"]
    gz = "None" if r["_gunzipped"] is None else "(Some %s)" % str_lit(unhex(r["_gunzipped"]))
    rs = "(mkResp %d %s %s %s %s %s)" % (r["status"], hdrs_lit([(unhex(n), unhex(v)) for n, v in r["headers"]]),
                                         str_lit(unhex(r["_wire_body"])), gz, bool_lit(r["framing"] == "chunked"),
                                         list_lit(["%d" % e["status"] for e in r.get("early") or []]))
    ob = "(mkObs %s %d %s %s %s %d %s %s %s %s %s %s %s %s)" % (
        str_lit(pr["client_ip"]), pr["status"], hdrs_lit(pr["headers"]), str_lit(pr["body"]), bool_lit(pr["hit"]), pr["svc"],
        str_lit(pr["method"]), str_lit(pr["target"]), str_lit(pr["host"]), hdrs_lit(pr["theaders"]), str_lit(pr["tbody"]),
        bool_lit(pr["rid_unique"]), bool_lit(pr["start_in_window"]), list_lit(["%d" % x for x in pr["early"]]))
    return "mkCase %s %s %s %s" % (bl, rq, rs, ob)


def parse_failures5(txt):
    """Printed value of `list (nat * bool * bool * N * N)`, strictly."""
    t = txt.strip()
    if t in ("[]", "nil"):
        return []
    if not (t.startswith("[") and t.endswith("]")):
        raise RuntimeError("unexpected failures term: " + t[:200])
    out = []
    for it in [x.strip() for x in t[1:-1].split(";")]:
        m = re.fullmatch(r"\((\d+)(?:%nat)?, (true|false), (true|false), (\d+)(?:%N)?, (\d+)(?:%N)?\)", it)
        if not m:
            raise RuntimeError("unexpected failures item: " + it[:200])
        out.append((int(m.group(1)), m.group(2) == "true", m.group(3) == "true", int(m.group(4)), int(m.group(5))))
    return out


FINDING_BITS = {1: "C13-F1-invalid-pchar", 2: "C13-F2-content-type-sniffed", 4: "C13-F3-gzip-decoded",
                8: "C13-F4-user-agent", 16: "C13-F5-connection-listed-request-id", 32: "C13-F6-304-content-type"}
CLAUSE_BITS = {1: "method", 2: "path", 4: "query", 8: "host", 16: "end-to-end request headers", 32: "request body",
               64: "X-Forwarded-*", 128: "X-Request-Id", 256: "X-Request-Start", 512: "status", 1024: "response headers",
               2048: "response body"}


def readable(case, obs):
    """Human-readable replay record of one exchange."""
    d = {"id": case["id"], "class": case["cls"], "host": case["_host"], "tls": case["tls"], "method": case["method"],
         "target": unhex(case["_target"]).decode("latin1"),
         "client_headers": [[unhex(n).decode("latin1"), unhex(v).decode("latin1")] for n, v in case["_headers"]],
         "raw_request_hex": case["raw"], "bindings": [[p, s["name"], s["strip"], s["forward"]] for p, s in bindings_for(case["_host"])],
         "target_response": {"status": case["resp"]["status"],
                             "headers": [[unhex(n).decode("latin1"), unhex(v).decode("latin1")] for n, v in case["resp"]["headers"]],
                             "body_hex": case["resp"]["_wire_body"], "framing": case["resp"]["framing"],
                             "informational_before": [e["status"] for e in case["resp"].get("early") or []]}}
    if obs is not None:
        d["observed"] = {
            "hit": obs.get("hit"), "service": obs.get("svc"), "err": obs.get("err"),
            "informational_received": [e["status"] for e in obs.get("early") or []],
            "target_request_line": unhex(obs.get("req_line") or "").decode("latin1"),
            "target_request_headers": [[unhex(k).decode("latin1"), unhex(v).decode("latin1")] for k, v, _ in obs.get("req_headers") or []],
            "target_request_body_hex": obs.get("req_body"),
            "client_status": obs.get("status"),
            "client_headers": [[unhex(k).decode("latin1"), unhex(v).decode("latin1")] for k, v in obs.get("resp_headers") or []],
            "client_body_hex": obs.get("resp_body")}
    return d


def run(tier, seed):
    res = Result(PROP, tier, seed)
    work = Work(PROP)
    try:
        ok, blog = coq_build(["props/C13.vo", "corr/C13corr.vo"])
        proofs_ok, pa = proof_obligations(work, res, "C13.v", ok, blog)
        cases = gen_cases(seed, tier)
        write_jsonl(work.path("cases.jsonl"), [{k: v for k, v in c.items() if not k.startswith("_")} if c["kind"] == "req" else c
                                               for c in cases])
        rc, out = go_test(work, ["common_test.go", "c13_test.go"], "^TestVerifC13$",
                          {"VERIF_IN": work.path("cases.jsonl"), "VERIF_OUT": work.path("obs.jsonl")})
        harness_ok = rc == 0 and os.path.exists(work.path("obs.jsonl"))
        obs = read_jsonl(work.path("obs.jsonl")) if harness_ok else []
        if harness_ok and len(obs) != len(cases):
            harness_ok = False
        reqs, robs = [], []
        if harness_ok:
            for c, o in zip(cases, obs):
                if c["kind"] == "req":
                    reqs.append(c)
                    robs.append(o)
        rid_count = {}
        for o in robs:
            for k, v, _ in o.get("req_headers") or []:
                if unhex(k) == b"X-Request-Id":
                    rid_count[unhex(v)] = rid_count.get(unhex(v), 0) + 1
        failing = []
        branches = [0, 0, 0, 0, 0]
        if harness_ok and ok:
            projs = [project(c, o, rid_count) for c, o in zip(reqs, robs)]
            shard = 120
            jobs = [(s, [case_term(reqs[j], projs[j]) for j in range(s, min(s + shard, len(reqs)))])
                    for s in range(0, len(reqs), shard)]

            def ev(job):
                s, terms = job
                body = ("Definition cases : list ccase := %s.\n"
                        "Definition R := Eval vm_compute in (failures cases, branch_counts cases (0,0,0,0,0)).\n"
                        % ("[\n" + ";\n".join(terms) + "]"))
                txt = coq_eval(work, "Cases_%d" % s,
                               "From KP Require Import model.Base model.Url model.Headers corr.C13corr.\nLocal Open Scope N_scope.",
                               body, "R")
                return s, txt
            with ThreadPoolExecutor(max_workers=16) as ex:
                for s, txt in ex.map(ev, jobs):
                    m = re.fullmatch(r"\((.*), \((\d+), (\d+), (\d+), (\d+), (\d+)\)\)", txt.replace("%N", "").strip(), re.S)
                    if not m:
                        raise RuntimeError("unexpected result term: " + txt[:300])
                    for i in range(5):
                        branches[i] += int(m.group(2 + i))
                    for (j, a, mo, f, cl) in parse_failures5(m.group(1)):
                        failing.append((s + j, a, mo, f, cl))
        # ---------------------------------------------------------- verdict ----
        listed = {e["id"]: e for e in known_findings(PROP)}
        real_mon, known_hits, disagree = [], {}, []
        for (j, a, mo, f, cl) in failing:
            if not a:
                disagree.append(j)
            if not mo:
                ids = [FINDING_BITS[b] for b in FINDING_BITS if f & b]
                if (f & 128) or not ids or any(i not in listed for i in ids):
                    real_mon.append((j, f, cl))
                else:
                    for i in ids:
                        known_hits.setdefault(i, []).append(j)
        for i, js in sorted(known_hits.items()):
            j = min(js, key=lambda x: len(reqs[x]["raw"]))
            res.known_finding("%s: %s (%d exchange(s) this run, e.g. %s %s on %s)" % (
                i, listed[i].get("what", ""), len(js), reqs[j]["method"], unhex(reqs[j]["_target"]).decode("latin1"), reqs[j]["_host"]))
        dist = {}
        for c in reqs:
            dist[c["cls"]] = dist.get(c["cls"], 0) + 1
        shape = {"with_query": 0, "force_query": 0, "pct_encoded_path": 0, "encoded_slash": 0, "double_slash": 0,
                 "trailing_slash": 0, "tls": 0, "chunked_request": 0, "request_body": 0, "client_xff": 0, "client_request_id": 0,
                 "head": 0, "response_chunked": 0}
        for c in reqs:
            t = unhex(c["_target"])
            p = t.split(b"?")[0]
            shape["with_query"] += b"?" in t
            shape["force_query"] += t.endswith(b"?") and t.count(b"?") == 1
            shape["pct_encoded_path"] += b"%" in p
            shape["encoded_slash"] += b"%2F" in p.upper()
            shape["double_slash"] += b"//" in p
            shape["trailing_slash"] += p.endswith(b"/")
            shape["tls"] += c["tls"]
            shape["chunked_request"] += c["_chunked"]
            shape["request_body"] += len(c["_body"]) > 0
            hn = {unhex(n).lower() for n, _ in c["_headers"]}
            shape["client_xff"] += b"x-forwarded-for" in hn
            shape["client_request_id"] += b"x-request-id" in hn
            shape["head"] += c["method"] == "HEAD"
            shape["response_chunked"] += c["resp"]["framing"] == "chunked"
            shape["informational_first"] = shape.get("informational_first", 0) + bool(c["resp"].get("early"))
            shape["long_header_value"] = shape.get("long_header_value", 0) + any(len(v) > 500 for _, v in c["_headers"])
        outcomes = {}
        for c, o in zip(reqs, robs):
            key = "%s %s" % ("forwarded" if o.get("hit") else "not-forwarded", o.get("status"))
            outcomes[key] = outcomes.get(key, 0) + 1
        svc_hits = {}
        for o in robs:
            if o.get("hit"):
                svc_hits[o["svc"]] = svc_hits.get(o["svc"], 0) + 1
        res.coverage.update({
            "evaluations": len(reqs),
            "distinct_nontrivial": len({json.dumps([c["method"], c["_target"], c["_host"], c["tls"], c["_headers"], c["_body"], c["_chunked"],
                                                    c["resp"]], sort_keys=True) for c, o in zip(reqs, robs) if o.get("hit")}),
            "rule": "hand-derived boundary targets first, then random structured exchanges drawn from VERIF_SEED: "
                    "class mix valid/malformed/known-finding shapes as in input_distribution; a case is non-trivial when it was forwarded to a target "
                    "(only then the transparency clauses are evaluated; rejected and unrouted requests only check 'both reject') and distinct by "
                    "its request (method, target, host, TLS, headers, body, framing) and scripted response",
            "input_distribution": {"class": dist, "shape": {k: int(v) for k, v in shape.items()}},
            "model_branches": dict(zip(["rejected_400", "not_found_404", "forwarded_no_strip", "forwarded_strip", "unmodelled"], branches)),
            "outcome_distribution": outcomes, "service_hits": svc_hits,
            "services": [{k: s[k] for k in ("name", "hosts", "prefixes", "strip", "forward", "tls")} for s in SERVICES],
            "samples": [readable(reqs[i], None) for i in ([0, len(reqs) // 2, len(reqs) - 1] if reqs else [])],
            "correspondence": {"cases": len(reqs), "disagreements": len(disagree),
                               "monitor_failures": len([f for f in failing if not f[2]]),
                               "monitor_failures_matching_known_findings": sum(len(v) for v in known_hits.values()),
                               "monitor_failures_unexplained": len(real_mon)},
            "projection": "compared: target-side method, raw request target, Host, header multimap by canonical key (values in order), body; "
                          "client-side status code, header multimap, body.  Not compared: header order across keys, header-name casing, "
                          "reason phrase, Content-Length/Transfer-Encoding (framing; body bytes compared instead), Connection on the client "
                          "side, values of generated X-Request-Id/X-Request-Start (shape, pairwise distinctness, time window only), Date value when the proxy adds it",
        })
        res.assumptions = [
            "model/Url.v and model/Headers.v are hand-written after net/url, net/http, httputil.ReverseProxy (Go 1.24.2) and target.go; "
            "they are tied to the code only by this correspondence run",
            "hop-by-hop removal, User-Agent/Accept-Encoding handling of the Go client, Date/Content-Type added by the Go server are "
            "net/http behaviour: modelled and compared, not verified; Te: trailers, Upgrade, Expect, Trailer, 1xx responses, absolute-form "
            "request targets, malformed header lines and invalid Host values are not generated",
            "c13_strip assumes the prefix holds no '%' (a prefix whose decoded form contains '%' cannot be spelled literally by a client)",
            "TLS is exercised only through the static-certificate service; X-Forwarded-Proto=https is compared on those exchanges",
        ]
        dump = os.environ.get("VERIF_C13_DUMP")
        if dump:
            with open(dump, "w") as fh:
                for (j, a, mo, f, cl) in failing:
                    d = readable(reqs[j], robs[j])
                    d.update({"agree": a, "monitor": mo, "findings": [FINDING_BITS[b] for b in FINDING_BITS if f & b],
                              "unexplained": bool(f & 128), "failed_clauses": [CLAUSE_BITS[b] for b in CLAUSE_BITS if cl & b]})
                    fh.write(json.dumps(d) + "\n")
        if real_mon:
            j, f, cl = min(real_mon, key=lambda x: (bin(x[2]).count("1"), bin(x[1] & 127).count("1"), reqs[x[0]]["id"]))
            payload = readable(reqs[j], robs[j])
            payload.update({"property": PROP, "what": "monitor false on an implementation trace", "seed": seed, "tier": tier,
                            "failed_clauses": [CLAUSE_BITS[b] for b in CLAUSE_BITS if cl & b],
                            "matched_finding_patterns": [FINDING_BITS[b] for b in FINDING_BITS if f & b],
                            "agrees_with_model": j not in disagree,
                            "other_failing_exchanges": len(real_mon) - 1})
            res.violation("monitor-%d" % reqs[j]["id"], payload)
        elif disagree or not harness_ok or not proofs_ok:
            what = ("model and implementation disagree" if disagree else
                    "harness does not build/run against the tree" if not harness_ok else "proof obligations of props/C13.v do not check")
            payload = {"property": PROP, "what": what, "seed": seed, "tier": tier,
                       "broken": "corr.C13corr.agree (model/Url.v, model/Headers.v vs the handler chain)" if disagree or not harness_ok else "props/C13.v"}
            if disagree:
                j = min(disagree, key=lambda x: len(reqs[x]["raw"]))
                payload.update(readable(reqs[j], robs[j]))
                payload["disagreeing_exchanges"] = len(disagree)
            if not harness_ok:
                payload["harness_output"] = out[-3000:]
            if not proofs_ok:
                payload["coq_output"] = (blog + pa)[-3000:]
            res.violation("broken", payload, no_input=True)
        return res.finish()
    finally:
        work.cleanup()
