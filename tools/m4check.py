"""Generic driver for the properties decided on the sequential machine M4
(C05, C06, C11 and the sequential part of C18): histories on the real code
(virtual clock), replay on model/Seq.v inside Coq, monitors of corr/M4corr.v."""
import random
from concurrent.futures import ThreadPoolExecutor

import m4
from vlib import *

IMPORTS = "From KP Require Import model.Base model.ServiceMap model.Seq corr.M4corr corr.C04cmd corr.C05cmd corr.C11step.\nLocal Open Scope N_scope.\n"


def go_run(work, hists, mats):
    scenarios = [m4.to_scenario(h, m) for h, m in zip(hists, mats)]
    write_jsonl(work.path("scen.jsonl"), scenarios)
    rc, gout = go_test(work, ["common_test.go", "sim_test.go", "simrun_test.go", "assets_test.go"], "^TestVerifSim$",
                       {"VERIF_IN": work.path("scen.jsonl"), "VERIF_OUT": work.path("simout.jsonl")}, synctest=True)
    global LAST_HANG
    LAST_HANG = None
    hp = work.path("simout.jsonl") + ".hang"
    if os.path.exists(hp):
        # the harness' real-time watchdog abandoned the run: scenario i did not end (goroutines that never stop, or blocked on a lock)
        hg = json.load(open(hp))
        os.remove(hp)
        LAST_HANG = {"index": hg["i"], "history": hists[hg["i"]] if hg["i"] < len(hists) else None, "limit_s": hg["limit_s"],
                     "stacks": hg["stacks"][-6000:]}
        return False, gout, []
    import vlib
    vlib.note_crash(work.path("simout.jsonl"), [{"history": json.loads(json.dumps(h, default=lambda b: b.decode("latin1")))} for h in hists], rc, gout)
    if rc != 0 or not os.path.exists(work.path("simout.jsonl")):
        return False, gout, []
    outs = read_jsonl(work.path("simout.jsonl"))
    note_panics([{"history": json.loads(json.dumps(h, default=lambda b: b.decode("latin1")))} for h in hists], outs)
    return len(outs) == len(hists), gout, outs


def coq_run(work, items, expr, shard=10, tag="M4"):
    """items: Coq terms (one per case, of any type T); expr: Coq function T ->
    (list (nat*N) * bool).  Returns [(mismatches, monitor_ok)] per item."""
    jobs = [(s, items[s:s + shard]) for s in range(0, len(items), shard)]

    def ev(job):
        s, terms = job
        body = "Definition ig := %s.\nDefinition xs := [\n%s].\n" % (m4.simple_in_group(), ";\n".join(terms))
        body += "Definition R := Eval vm_compute in map (%s) xs.\n" % expr
        return s, coq_eval(work, "%s_%d" % (tag, s), IMPORTS, body, "R")
    texts = {}
    with ThreadPoolExecutor(max_workers=16) as ex:
        for s, txt in ex.map(ev, jobs):
            texts[s] = txt
    return m4.parse_hist_results(texts, len(items), shard)


LAST_HANG = None

MIS = "(fun h => map (fun m => (mi_step m, mi_what m)) (check_history ig fixed h))"


def run_property(prop, tier, seed, prop_files, coq_targets, profile, monitor, n_quick, n_thorough,
                 pair_restart=False, len_range=(4, 14), assumptions=None, extra=None, fixed=None):
    res = Result(prop, tier, seed)
    work = Work(prop)
    try:
        ok, blog = coq_build(coq_targets + ["corr/M4corr.vo", "corr/C04cmd.vo", "corr/C05cmd.vo", "corr/C11step.vo"])
        proofs_ok, pa = True, ""
        ob = {"obligations": 0, "discharged": 0, "theorems": []}
        for pf in prop_files:
            p_ok, out = proof_obligations(work, res, pf, ok, blog)
            proofs_ok = proofs_ok and p_ok
            pa += out
            ob["obligations"] += res.coverage["obligations"]
            ob["discharged"] += res.coverage["discharged"]
            ob["theorems"] += res.coverage["theorems"]
        res.coverage.update(ob)
        closed = pa.count("Closed under the global context")
        res.coverage["trusted_base"] = ["Coq 8.16.1 kernel incl. vm_compute (no native_compute)",
                                        "Print Assumptions: %d of %d theorem(s) closed under the global context" % (closed, ob["obligations"])]
        rnd = random.Random(seed)
        n = n_quick if tier == "quick" else n_thorough
        hists, mats, ks = [], [], []
        for h in (fixed or []) if not pair_restart else []:
            # directed histories (run first): the request matrix asks every bound host x a path under every bound prefix
            mx = m4.matrix(rnd, h, 8)
            hists.append(h)
            mats.append([mx for _ in h])
        for h, k in (fixed or []) if pair_restart else []:
            # directed pairs (run first): history h as it is, and with a restart inserted before step k
            mx = m4.matrix(rnd, h, 8)
            m = [mx for _ in h]
            hists += [h, h[:k] + [{"op": "restart"}] + h[k:]]
            mats += [m, m[:k] + [mx] + m[k:]]
            ks.append(k)
        for _ in range(n):
            h = m4.gen_history(rnd, rnd.randint(*len_range), profile)
            if (profile or {}).get("rollout_template") and rnd.random() < 0.5:
                # a service with rollout targets and an allowlist-only split (percentage 0), then the random rest
                name = rnd.choice(m4.NAMES[:3])
                host = rnd.choice(m4.HOSTS)
                pre = [{"op": "deploy", "name": name, "hosts": [host], "prefixes": [], "tls": False, "tls_redirect": False,
                        "strip": True, "cert": "none", "pages": "none", "topts": 0,
                        "targets": [{"name": b"ta:80", "healthy": True}, {"name": b"tb:80", "healthy": True}]},
                       {"op": "rollout_deploy", "name": name, "targets": [{"name": b"tc:8080", "healthy": True}]},
                       {"op": "rollout_set", "name": name, "pct": 0, "allow": [b"alice", b"carol"]}]
                h = pre + [c for c in h if not (c.get("name") == name and c["op"] in ("remove", "rollout_stop", "rollout_set", "deploy"))][:6]
            mx = m4.matrix(rnd, h, 8)
            m = [mx for _ in h]
            if pair_restart:
                k = rnd.randint(0, len(h))
                restart = {"op": "restart"}
                multi = [c for c in h[:k] if c["op"] == "deploy" and len(c["targets"]) >= 2 and all(t["healthy"] for t in c["targets"])]
                if multi and k > 0 and rnd.random() < 0.6:
                    # one target (not the last of its list) of a service deployed before the restart point fails one
                    # probe and recovers: in the original run just before position k, in the other just after the restart
                    tg = multi[-1]["targets"][0]["name"]
                    h = h[:k - 1] + [dict(h[k - 1], flap_after=tg)] + h[k:]
                    restart = {"op": "restart", "flap_after": tg}
                h2 = h[:k] + [restart] + h[k:]
                m2 = m[:k] + [mx] + m[k:]
                hists += [h, h2]
                mats += [m, m2]
                ks.append(k)
            else:
                hists.append(h)
                mats.append(m)
        harness_ok, gout, outs = go_run(work, hists, mats)
        if LAST_HANG and prop == "C06":
            # "nothing keeps running on its behalf": a history after which the proxy's goroutines never stop (the virtual clock
            # runs on for ever) is a failing input of C06 - the history is the replay, the goroutine stacks say what still runs
            res.coverage.update({"evaluations": len(hists), "distinct_nontrivial": len(hists), "rule": "see a passing run",
                                 "samples": [], "correspondence": {"histories": len(hists), "did_not_end": LAST_HANG["index"]}})
            res.violation("hang-%d" % LAST_HANG["index"], {
                "property": prop, "seed": seed, "tier": tier,
                "what": "after this command history the proxy keeps something running for ever (the scenario does not end on the virtual "
                        "clock within %d s of real time): goroutine stacks attached" % LAST_HANG["limit_s"],
                "case": json.loads(json.dumps({"history": LAST_HANG["history"]}, default=lambda b: b.decode("latin1"))),
                "stacks": LAST_HANG["stacks"]})
            return res.finish()
        results = []
        if harness_ok and ok:
            terms = [m4.history_term(h, m, o) for h, m, o in zip(hists, mats, outs)]
            if pair_restart:
                items = ["(%s,\n %s, %d%%nat)" % (terms[2 * i], terms[2 * i + 1], ks[i]) for i in range(len(ks))]
                expr = ("(fun p => let '(h1, h2, k) := p in (%s h1 ++ %s h2, %s))" % (MIS, MIS, monitor))
            else:
                items = terms
                expr = "(fun h => (%s h, %s))" % (MIS, monitor)
            results = coq_run(work, items, expr, tag=prop)
        # coverage
        ops, outcomes = {}, {}
        for h, o in zip(hists, outs):
            rs = {r["id"]: r for r in o["results"]}
            for i, c in enumerate(h):
                ops[c["op"]] = ops.get(c["op"], 0) + 1
                r = rs.get("c%d" % i, {}).get("result", "?")
                outcomes[r] = outcomes.get(r, 0) + 1
        cases = len(ks) if pair_restart else len(hists)
        distinct = len({json.dumps([[(k, str(v)) for k, v in sorted(c.items())] for c in h]) for h in hists})
        res.coverage.update({
            "evaluations": cases, "distinct_nontrivial": distinct if not pair_restart else len(ks),
            "rule": "random command histories of length %d..%d over a colliding universe of service names, hosts, path prefixes and "
                    "targets (profile %s), executed on the real router on a virtual clock; after every command: result, list, state "
                    "file, probed targets and a request matrix are compared with the model; a history is non-trivial if distinct"
                    % (len_range[0], len_range[1], json.dumps(profile or {})),
            "commands_executed": sum(ops.values()), "command_mix": ops, "result_mix": outcomes,
            "samples": [[{k: (v if not isinstance(v, (bytes, list)) else str(v)) for k, v in c.items()} for c in hists[0]]],
            "correspondence": {"histories": len(hists), "with_mismatch": len([r for r in results if r and r[0]]),
                               "monitor_failures": len([r for r in results if r and not r[1]])},
        })
        res.assumptions = (assumptions or []) + [
            "model/Seq.v is hand-written; tied to router.go/service.go/pause_controller.go/service_map.go by this run only",
            "health outcomes, certificate and error-page readability are inputs; Go runtime, net/http, encoding/json modelled not verified",
        ]
        if extra:
            x_ok, x_bad, x_out = extra(res, work, tier)
            if not x_ok:
                harness_ok = False
                gout = x_out
            elif x_bad:
                res.violation("stress", {"property": prop, "what": (x_bad[0].get("what") if isinstance(x_bad[0], dict) and x_bad[0].get("what")
                                                                     else "monitor false on a concurrent run of the real code"),
                                         "observed": x_bad[:3], "seed": seed, "tier": tier,
                                         "replay": (x_bad[0].get("replay_note") if isinstance(x_bad[0], dict) and x_bad[0].get("replay_note")
                                                    else "go test -run TestVerifC05Race (harness/c05_race_test.go), real scheduler")})
                return res.finish()
        mon_fail = [i for i, r in enumerate(results) if r and not r[1]]
        disagree = [i for i, r in enumerate(results) if r and r[0] and r[1]]

        def payload(i, what):
            if pair_restart:
                hh = {"history": hists[2 * i], "with_restart_before_step": ks[i]}
            else:
                hh = {"history": hists[i]}
            return {"property": prop, "what": what, "seed": seed, "tier": tier, "mismatches": results[i][0],
                    "case": json.loads(json.dumps(hh, default=lambda b: b.decode("latin1")))}
        if mon_fail:
            i = mon_fail[0]
            res.violation("monitor-%d" % i, payload(i, "monitor false on an implementation history"))
        elif disagree or not harness_ok or not proofs_ok:
            what = ("model and implementation disagree (corr.M4corr.check_history)" if disagree else
                    gout.split(":", 1)[1].strip()[:300] if (not harness_ok and gout.startswith("CORRESPONDENCE:")) else
                    "harness does not build/run against the tree" if not harness_ok else
                    "proof obligations do not check: " + ", ".join(prop_files))
            pl = payload(disagree[0], what) if disagree else {"property": prop, "what": what, "seed": seed, "tier": tier}
            if not harness_ok:
                pl["harness_output"] = gout[-3000:]
                if LAST_HANG:
                    pl["history_that_did_not_end"] = json.loads(json.dumps(LAST_HANG, default=lambda b: b.decode("latin1")))
            if not proofs_ok:
                pl["coq_output"] = (blog + pa)[-3000:]
            res.violation("broken", pl, no_input=True)
        return res.finish()
    finally:
        work.cleanup()
