"""Shared machinery for the sequential-machine (M4) properties: history
generator, translation to harness scenarios (harness/sim_test.go), parsing of
the observations, emission of Coq terms for corr/M4corr.v."""
import random

from vlib import *

SEC = 1_000_000_000
H = lambda s: (s if isinstance(s, bytes) else s.encode()).hex()

NAMES = [b"web", b"api", b"admin", b"blog"]
HOSTS = [b"a.example.com", b"b.example.com", b"*.example.com", b"example.com", b"x.io", b"localhost", b"A.Example.com"]
PREFIXES = [b"/", b"/api", b"/api/v1", b"/apiary", b"api/", b"/app/", b"/docs"]
GOOD_TARGETS = [b"ta:80", b"tb:80", b"tc:8080", b"td", b"te.internal:3000", b"tf_1:80"]
DEAD_TARGETS = [b"tx:80", b"ty:9000", b"tz"]   # never answer their probes
BAD_TARGETS = [b"x", b"ta:80x", b"t a:80", b":80", b"ta:", b"http://ta:80", b"-ta:80"]
TOPTS = [
    {"health_path": b"/up", "tag": 0},
    {"health_path": b"/health", "tag": 1, "buffer_requests": True, "buffer_memory": 1000, "max_request_body": 5000},
    {"health_path": b"/up", "tag": 2, "response_timeout": 7 * SEC, "forward_headers": True},
]
MESSAGES = [b"", b"down for maintenance", b"<b>back soon</b> & \"quotes\"", b"{{.Message}} {{ if }}", b"caf\xc3\xa9 ok"]


def gen_history(rnd, n, profile=None):
    """A list of abstract commands.  profile: dict of weights."""
    w = {"deploy": 8, "deploy_fail": 3, "redeploy_same_fail": 0, "flap": 0, "rollout_deploy": 2, "rollout_set": 2, "rollout_stop": 1, "pause": 2,
         "stop": 2, "resume": 2, "remove": 2, "restart": 1}
    if profile:
        w.update(profile)
    kinds = [k for k, v in w.items() for _ in range(v)]
    hist = []
    for _ in range(n):
        k = rnd.choice(kinds)
        name = rnd.choice(NAMES[:3] if rnd.random() < 0.85 else NAMES)
        if k in ("deploy", "deploy_fail"):
            hosts = rnd.sample(HOSTS, rnd.choice([0, 1, 1, 1, 2]))
            prefixes = rnd.sample(PREFIXES, rnd.choice([0, 0, 1, 1, 2]))
            tls = rnd.random() < 0.3
            c = {"op": "deploy", "name": name, "hosts": hosts, "prefixes": prefixes, "tls": tls,
                 "tls_redirect": rnd.random() < 0.6, "strip": rnd.random() < 0.7,
                 "cert": rnd.choice(["none", "none", "good"]) if tls else rnd.choice(["none", "none", "none", "good"]),
                 "pages": rnd.choice(["none", "none", "good"]),
                 "topts": rnd.randrange(len(TOPTS)),
                 "targets": [{"name": t, "healthy": True} for t in rnd.sample(GOOD_TARGETS, rnd.choice([1, 1, 2, 3]))]}
            if k == "deploy_fail":
                f = rnd.choice(["bad_target", "unhealthy", "cert", "pages", "wildcard", "conflict"])
                if f == "bad_target":
                    c["targets"].insert(rnd.randrange(len(c["targets"]) + 1), {"name": rnd.choice(BAD_TARGETS), "healthy": True})
                elif f == "unhealthy":
                    c["targets"].insert(rnd.randrange(len(c["targets"]) + 1), {"name": rnd.choice(DEAD_TARGETS), "healthy": False})
                elif f == "cert":
                    c["tls"], c["cert"] = True, "bad"
                    if not c["hosts"]:
                        c["hosts"] = [rnd.choice(HOSTS)]
                elif f == "pages":
                    c["pages"] = "bad"
                elif f == "wildcard":
                    c["tls"], c["cert"], c["hosts"] = True, "none", [b"*.example.com"] + c["hosts"][:1]
                # "conflict": left to chance / to the dedicated profile
            hist.append(c)
        elif k == "redeploy_same_fail":
            prev = [c for c in hist if c["op"] == "deploy" and c["name"] == name]
            if not prev:
                continue
            c = dict(prev[-1])
            c["topts"] = (c["topts"] + 1 + rnd.randrange(len(TOPTS) - 1)) % len(TOPTS)     # other target options
            c["targets"] = [{"name": t, "healthy": True} for t in rnd.sample(GOOD_TARGETS, rnd.choice([1, 2]))]
            if rnd.random() < 0.5:
                c["targets"].insert(rnd.randrange(len(c["targets"]) + 1), {"name": rnd.choice(BAD_TARGETS), "healthy": True})
            else:
                c["targets"].insert(rnd.randrange(len(c["targets"]) + 1), {"name": rnd.choice(DEAD_TARGETS), "healthy": False})
            hist.append(c)
        elif k == "rollout_deploy":
            ts = [{"name": t, "healthy": True} for t in rnd.sample(GOOD_TARGETS, rnd.choice([1, 2]))]
            if rnd.random() < 0.15:
                ts.insert(rnd.randrange(len(ts) + 1), {"name": rnd.choice(DEAD_TARGETS), "healthy": False})
            if rnd.random() < 0.1:
                ts.append({"name": rnd.choice(BAD_TARGETS), "healthy": True})
            if rnd.random() < 0.08:
                ts = []                       # legal: an empty rollout target list
            hist.append({"op": "rollout_deploy", "name": name, "targets": ts})
        elif k == "rollout_set":
            hist.append({"op": "rollout_set", "name": name, "pct": rnd.choice([0, 100, 100]),
                         "allow": rnd.sample([b"alice", b"bob", b"carol"], rnd.choice([0, 1, 2]))})
        elif k == "rollout_stop":
            hist.append({"op": "rollout_stop", "name": name})
        elif k == "pause":
            hist.append({"op": "pause", "name": name, "fail_after": rnd.choice([1, 1, 2]) * SEC // rnd.choice([1, 2])})
        elif k == "stop":
            hist.append({"op": "stop", "name": name, "msg": rnd.choice(MESSAGES)})
        elif k in ("resume", "remove"):
            hist.append({"op": k, "name": name})
        elif k == "restart":
            hist.append({"op": "restart"})
        elif k == "flap" and hist:
            # attached to the previous command: after its observation window one target of a deployed service
            # fails one probe and recovers (nothing observable may change)
            deployed = [c for c in hist if c["op"] == "deploy" and c["targets"] and all(t["healthy"] for t in c["targets"])]
            if deployed:
                tg = rnd.choice(rnd.choice(deployed)["targets"])["name"]
                if not any(tg in BAD_TARGETS for _ in [0]):
                    hist[-1] = dict(hist[-1], flap_after=tg)
    return hist


def matrix(rnd, hist, k=6):
    """Requests used to probe routing/policy after every command."""
    hosts = sorted({h for c in hist if c["op"] == "deploy" for h in c["hosts"]})
    concrete = [h.replace(b"*", b"sub") for h in hosts] + [b"unknown.org", b"deep.sub.example.com", b"example.com:8080",
                                                            b"a.example.com:443"]
    paths = [b"/", b"/api", b"/api/", b"/api/v1/x", b"/apiary", b"/apix", b"/app", b"/app/z", b"/docs/a?b=c", b"/up",
             b"/health", b"/other?q=1"]
    reqs = []
    # targeted requests: every deployed service is addressed on one of its own bindings, with and without an
    # allowlisted rollout cookie
    deploys = [c for c in hist if c["op"] == "deploy"]
    allow_all = sorted({a for c in hist if c["op"] == "rollout_set" for a in c["allow"]})
    for c in rnd.sample(deploys, min(len(deploys), max(1, k // 3))):
        host = (rnd.choice(c["hosts"]) if c["hosts"] else b"unknown.org").replace(b"*", b"sub")
        pre = rnd.choice(c["prefixes"]) if c["prefixes"] else b"/"
        pre = b"/" + pre.strip(b"/")
        reqs.append({"host": host, "uri": (pre.rstrip(b"/") + b"/x"), "tls": c["tls"],
                     "cookie": rnd.choice(allow_all) if allow_all and rnd.random() < 0.7 else None, "method": "GET"})
    k = max(1, k - len(reqs))
    allowed = sorted({a for c in hist if c["op"] == "rollout_set" for a in c["allow"]}) or [b"alice"]
    for _ in range(k):
        uri = rnd.choice(paths)
        reqs.append({"host": rnd.choice(concrete), "uri": uri, "tls": rnd.random() < 0.25,
                     "cookie": rnd.choice([None, None, rnd.choice(allowed), b"zed", b""]),
                     "method": rnd.choice(["GET", "GET", "POST"])})
    return reqs


PROBE_WINDOW = 2 * SEC
DEPLOY_TIMEOUT = 3 * SEC


def to_scenario(hist, matrices):
    steps = []
    for i, c in enumerate(hist):
        cid = "c%d" % i
        if c["op"] in ("deploy", "rollout_deploy"):
            # ("probes": an explicit answer script for a target the model counts as not becoming healthy in time)
            targets = [{"name": H(t["name"]), "probes": t.get("probes") or (["ok"] if t["healthy"] else ["refused"])} for t in c["targets"]]
            st = {"op": c["op"], "id": cid, "name": H(c["name"]), "targets": targets,
                  "deploy_timeout": DEPLOY_TIMEOUT, "drain_timeout": 1 * SEC}
            if c["op"] == "deploy":
                to = TOPTS[c["topts"]]
                st.update({"hosts": [H(h) for h in c["hosts"]], "prefixes": [H(p) for p in c["prefixes"]],
                           "tls": c["tls"], "tls_redirect": c["tls_redirect"], "strip": c["strip"],
                           "cert": c["cert"], "pages": c["pages"],
                           "topts": {k: (H(v) if isinstance(v, bytes) else v) for k, v in to.items() if k != "tag"}})
            steps.append(st)
        elif c["op"] == "rollout_set":
            steps.append({"op": "rollout_set", "id": cid, "name": H(c["name"]), "pct": c["pct"], "allow": [H(a) for a in c["allow"]]})
        elif c["op"] == "pause":
            steps.append({"op": "pause", "id": cid, "name": H(c["name"]), "fail_after": c["fail_after"], "drain_timeout": 1 * SEC})
        elif c["op"] == "stop":
            steps.append({"op": "stop", "id": cid, "name": H(c["name"]), "msg": H(c["msg"]), "drain_timeout": 1 * SEC})
        elif c["op"] == "restart":
            steps.append({"op": "restart", "id": cid})
        else:
            steps.append({"op": c["op"], "id": cid, "name": H(c["name"])})
        steps.append({"op": "observe", "id": "o%d" % i})
        for j, q in enumerate(matrices[i]):
            hdrs = []
            if q["cookie"] is not None:
                hdrs.append([H(b"Cookie"), H(b"kamal-rollout=" + q["cookie"])])
            for n, v in q.get("xhdrs") or []:      # further client headers the policy must not depend on
                hdrs.append([H(n), H(v)])
            steps.append({"op": "request", "id": "q%d_%d" % (i, j), "async": True, "host": H(q["host"]), "uri": H(q["uri"]),
                          "tls": q["tls"], "method": q["method"], "headers": hdrs})
        steps.append({"op": "sleep", "ns": PROBE_WINDOW + SEC // 2 + 7, "id": "w%d" % i})
        if c.get("outage_after"):
            # one target of a deployed service fails its probes for a while: the commands that follow run (and take their
            # snapshots) while it is out of rotation; it recovers later
            steps.append({"op": "probe_script", "targets": [{"name": H(c["outage_after"]), "probes": ["refused"] * 7 + ["ok"]}]})
            steps.append({"op": "sleep", "ns": SEC + SEC // 2 + 3, "id": "g%d" % i})
        if c.get("slow_probe_after"):
            # the next probe of that target is answered late (within its timeout, successfully): nothing observable changes in a
            # running proxy; after a restart at this point it is the FIRST probe of the restored target that is slow
            steps.append({"op": "probe_script", "targets": [{"name": H(c["slow_probe_after"]), "probes": ["slow:%d:200" % (SEC * 4 // 10), "ok"]}]})
        if c.get("flap_after"):
            steps.append({"op": "probe_script", "targets": [{"name": H(c["flap_after"]), "probes": ["refused", "ok"]}]})
            steps.append({"op": "sleep", "ns": 2 * SEC + SEC // 2 + 3, "id": "f%d" % i})
    return {"steps": steps}


def probed_in_window(events, t0, t1):
    counts = {}
    for e in events:
        if e["kind"] == "probe-sent" and t0 < e["t"] <= t1:
            counts[e["args"][0]] = counts.get(e["args"][0], 0) + 1
    loops = {}
    for k, v in counts.items():
        loops[k] = (v, PROBE_WINDOW // SEC)
    return loops


# ------------------------------------------------------------ Coq terms ----

def strs(l):
    return list_lit([str_lit(x) for x in l])


def cmd_term(c):
    op = c["op"]
    if op == "deploy":
        to = TOPTS[c["topts"]]
        cert = {"none": "CertNone", "good": "CertGood", "bad": "CertBad"}[c["cert"]]
        pages = {"none": "PagesNone", "good": "PagesGood", "bad": "PagesBad"}[c["pages"]]
        return "Deploy %s (mkSopts %s %s %s %s %s %s %s) (mkTopts %s %d) %s" % (
            str_lit(c["name"]), strs(c["hosts"]), strs(c["prefixes"]), bool_lit(c["tls"]), bool_lit(c["tls_redirect"]),
            cert, pages, bool_lit(c["strip"]), str_lit(to["health_path"]), to["tag"],
            list_lit(["mkTgt %s %s" % (str_lit(t["name"]), bool_lit(t["healthy"])) for t in c["targets"]]))
    if op == "rollout_deploy":
        return "RolloutDeploy %s %s" % (str_lit(c["name"]),
                                        list_lit(["mkTgt %s %s" % (str_lit(t["name"]), bool_lit(t["healthy"])) for t in c["targets"]]))
    if op == "rollout_set":
        return "RolloutSet %s (%d)%%Z %s" % (str_lit(c["name"]), c["pct"], strs(c["allow"]))
    if op == "rollout_stop":
        return "RolloutStop %s" % str_lit(c["name"])
    if op == "pause":
        return "Pause %s %d" % (str_lit(c["name"]), c["fail_after"])
    if op == "stop":
        return "Stop %s %s" % (str_lit(c["name"]), str_lit(c["msg"]))
    if op == "resume":
        return "Resume %s" % str_lit(c["name"])
    if op == "remove":
        return "Remove %s" % str_lit(c["name"])
    if op == "restart":
        return "Restart"
    raise ValueError(op)


ERRS = {"not_found": "ENotFound", "unhealthy": "EUnhealthy", "host_in_use": "EHostInUse", "invalid_target": "EInvalidTarget",
        "cert": "ECert", "wildcard_acme": "EWildcardACME", "pages": "EPages", "rollout_not_set": "ERolloutNotSet"}


def res_term(r):
    if r == "ok":
        return "OOk"
    if r == "panic":
        return "OPanic"
    if r in ERRS:
        return "(OErr %s)" % ERRS[r]
    return "OOther"


def unhex(s):
    return bytes.fromhex(s)


def tag_of(to_json):
    """Recover the TOPTS index from the target options in the state file."""
    hp = to_json["health_check_config"]["path"].encode("utf-8", "surrogateescape")
    for to in TOPTS:
        if (to["health_path"] == hp and bool(to.get("buffer_requests")) == to_json["buffer_requests"]
                and to.get("buffer_memory", 0) == to_json["max_memory_buffer_size"]
                and to.get("max_request_body", 0) == to_json["max_request_body_size"]
                and to.get("response_timeout", 30 * SEC) == to_json["response_timeout"]
                and bool(to.get("forward_headers")) == to_json["forward_headers"]):
            return to["tag"]
    return 99


def jbytes(s):
    """JSON text as Go wrote it: invalid UTF-8 became U+FFFD; compare as UTF-8."""
    return s.encode("utf-8", "surrogatepass") if s is not None else b""


def snap_term(sv):
    o = sv["options"]
    pc = sv["pause_controller"]
    rc = sv["rollout_controller"]
    ro = sv["rollout_targets"]
    return "mkSnap %s %s %s %s %s %s %s %s %s %d %s %s %d %s %d %s" % (
        str_lit(jbytes(sv["name"])), strs([jbytes(h) for h in (o["hosts"] or [])]),
        strs([jbytes(p) for p in (o["path_prefixes"] or [])]),
        bool_lit(o["tls_enabled"]), bool_lit(o["tls_redirect"]), bool_lit(o["strip_prefix"]),
        bool_lit(o["tls_certificate_path"] != ""), bool_lit(o["error_page_path"] != ""),
        str_lit(jbytes(sv["target_options"]["health_check_config"]["path"])), tag_of(sv["target_options"]),
        strs([jbytes(t) for t in (sv["active_targets"] or [])]),
        "None" if ro is None else "(Some %s)" % strs([jbytes(t) for t in ro]),
        pc["state"], str_lit(jbytes(pc["stop_message"])), pc["fail_after"],
        "None" if rc is None else "(Some ((%d)%%Z, %s))" % (rc["percentage"], strs([jbytes(a) for a in (rc["allowlist"] or [])])))


def row_term(name_hex, d):
    return "mkRow %s %s %s %s %s %s" % (str_lit(unhex(name_hex)), str_lit(unhex(d["host"])), str_lit(unhex(d["path"])),
                                        str_lit(unhex(d["target"])), str_lit(d["state"].encode()), bool_lit(d["tls"]))


def req_term(q):
    uri = q["uri"]
    from urllib.parse import unquote_to_bytes
    path = unquote_to_bytes(uri.split(b"?", 1)[0])     # r.URL.Path is the decoded path
    return "mkReq %s %s %s %s %s %s" % (str_lit(q["host"]), str_lit(path), str_lit(uri), bool_lit(q["method"] == "GET"),
                                        bool_lit(q["tls"]),
                                        "None" if q["cookie"] is None else "(Some %s)" % str_lit(q["cookie"]))


def history_term(hist, matrices, out):
    """Coq term of type list step_obs from one scenario output."""
    results = {r["id"]: r for r in out["results"]}
    events = out["events"]
    steps = []
    for i, c in enumerate(hist):
        r = results["c%d" % i]
        ob = results["o%d" % i]
        lst = ob["list"]
        rows = list_lit([row_term(k, lst[k]) for k in sorted(lst, key=lambda h: unhex(h))])
        sf = ob["state_file"]
        if isinstance(sf, dict) and "error" in sf:
            snap = "None" if sf["error"] == "absent" else "(Some [mkSnap [] [] [] false false false false false [] 98 [] None 9 [] 0 None])"
        else:
            snap = "(Some %s)" % list_lit([snap_term(sv) for sv in sorted(sf, key=lambda sv: jbytes(sv["name"]))])
        t0 = ob["t"]
        loops = probed_in_window(events, t0, t0 + PROBE_WINDOW)
        probed = list_lit(["(%s, %d)" % (str_lit(k.encode()), v[0] // v[1]) for k, v in sorted(loops.items(), key=lambda kv: kv[0].encode())
                           if v[0] // v[1] > 0])
        reqs = []
        for j, q in enumerate(matrices[i]):
            rr = results["q%d_%d" % (i, j)]
            reqs.append("(%s, mkResp %d %s %s %d %s)" % (
                req_term(q), rr["status"], str_lit(rr["location"].encode()), str_lit(rr["served_by"].encode()),
                rr["t_done"] - rr["t_arrive"], str_lit(unhex(rr["body"])) if rr["status"] == 503 else "[]"))
        steps.append("mkStep (%s) %s %s %s %s %s" % (cmd_term(c), res_term(r["result"]), rows, snap, probed, list_lit(reqs)))
    return "[" + ";\n ".join(steps) + "]"


def simple_in_group():
    """Cookie decision used by the M4 histories: only percentages 0 and 100
    occur, so the decision is allowlist membership or pct = 100 (the hash
    threshold itself is C10's business)."""
    return "(fun rc v => mem_str v (r_allow rc) || (100 <=? r_pct rc)%Z)"


def run_histories(work, hists, matrices_list, variant="fixed", extra_defs="", extra_eval=None, shard=12):
    """Run the histories on the real code and in Coq.  Returns (harness_ok, go_output,
    outs, per-history mismatch text list)."""
    scenarios = [to_scenario(h, m) for h, m in zip(hists, matrices_list)]
    write_jsonl(work.path("scen.jsonl"), scenarios)
    rc, gout = go_test(work, ["common_test.go", "sim_test.go", "simrun_test.go", "assets_test.go"], "^TestVerifSim$",
                       {"VERIF_IN": work.path("scen.jsonl"), "VERIF_OUT": work.path("simout.jsonl")}, synctest=True)
    if rc != 0 or not os.path.exists(work.path("simout.jsonl")):
        return False, gout, [], []
    outs = read_jsonl(work.path("simout.jsonl"))
    if len(outs) != len(hists):
        return False, gout, outs, []
    from concurrent.futures import ThreadPoolExecutor
    jobs = []
    for s in range(0, len(hists), shard):
        jobs.append((s, [history_term(hists[j], matrices_list[j], outs[j]) for j in range(s, min(s + shard, len(hists)))]))

    def ev(job):
        s, terms = job
        body = "Definition hs : list (list step_obs) := [\n%s].\n" % ";\n".join(terms)
        body += "Definition ig := %s.\n" % simple_in_group()
        body += extra_defs
        body += ("Definition R := Eval vm_compute in map (fun h => (map (fun m => (mi_step m, mi_what m)) (check_history ig %s h)%s)) hs.\n"
                 % (variant, extra_eval or ", true"))
        txt = coq_eval(work, "M4_%d" % s,
                       "From KP Require Import model.Base model.ServiceMap model.Seq corr.M4corr.\nLocal Open Scope N_scope.", body, "R")
        return s, txt
    texts = {}
    with ThreadPoolExecutor(max_workers=16) as ex:
        for s, txt in ex.map(ev, jobs):
            texts[s] = txt
    return True, gout, outs, texts


def parse_hist_results(texts, n, shard=12):
    """Parse `list (list (nat*N) * bool)` printed per shard into
    [(mismatches, monitor_ok)] per history."""
    res = [None] * n
    for s, txt in texts.items():
        t = txt.strip()
        if not (t.startswith("[") and t.endswith("]")):
            raise RuntimeError("unexpected term " + t[:200])
        # split top-level items: each is "([...], bool)"
        items = re.findall(r"\(\[(.*?)\], (true|false)\)", t)
        cnt = min(shard, n - s)
        if len(items) != cnt:
            raise RuntimeError("expected %d results, parsed %d: %s" % (cnt, len(items), t[:300]))
        for k, (mm, mon) in enumerate(items):
            mis = [(int(a), int(b)) for a, b in re.findall(r"\((\d+)(?:%nat)?, (\d+)\)", mm)]
            if mm.strip() and not mis:
                raise RuntimeError("cannot parse mismatches: " + mm[:200])
            res[s + k] = (mis, mon == "true")
    return res
