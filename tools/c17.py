"""C17 — commands return within their timeouts and leave no probes behind.

Adversarial scenarios on the virtual clock (harness/sim_test.go, real Router /
Service / LoadBalancer / Target / HealthCheck code): targets that never answer
probes, answer exactly at the deploy deadline +-1 ns, flap; requests that hang
or end exactly at the drain deadline +-1 ns; random triples of timeouts
including 0; every command kind, overlapping.  Each recorded trace must be
accepted by the timing view (model/M5time.v) and satisfy the monitor
corr/C17corr.c17_ok; the theorems of props/C17.v hold for all accepted traces.

Upgraded (hijacked) connections are NOT generated: the harness serves requests
through httptest.ResponseRecorder, which is not an http.Hijacker."""
import collections
import random

import m5
from vlib import *

SEC, MS = m5.SEC, m5.MS
H = m5.H
INTERVAL = SEC
HOSTS = {b"web": b"a.example.com", b"api": b"b.example.com", b"zz": b"a.example.com"}


class Gen17:
    def __init__(self, rnd, yields=False):
        self.rnd = rnd
        self.steps = []
        self.ncmd = 0
        self.nreq = 0
        self.ntgt = 0
        self.live = set()
        self.used = []
        self.yields = yields

    def cid(self):
        self.ncmd += 1
        return "c%d" % self.ncmd

    def tname(self):
        rnd = self.rnd
        if self.used and rnd.random() < 0.15:
            return rnd.choice(self.used)            # a name reused by a later deploy
        n = m5.TARGET_POOL[self.ntgt % len(m5.TARGET_POOL)]
        self.ntgt += 1
        self.used.append(n)
        return n

    def script(self, mode, dt):
        """probe script of one target; dt = deploy timeout of the command"""
        rnd = self.rnd
        if mode == "ok":
            return rnd.choice([["ok"], ["ok"], ["ok", "ok", "refused", "ok"], ["ok", "status:500", "ok"]])
        if mode == "never":
            return rnd.choice([["refused"], ["status:503"], ["hang"], ["slow:%d" % (50 * SEC)], ["refused", "status:500", "hang"]])
        if mode == "edge":      # healthy at the deploy deadline -1, +0, +1 ns, or at a tick around it
            d = rnd.choice([-1, 0, 1])
            if dt + d > 0 and rnd.random() < 0.6:
                return ["slow:%d" % (dt + d), "ok"]
            k = max(int(dt // INTERVAL), 0)
            return ["refused"] * rnd.choice([max(k - 1, 0), k, k + 1]) + ["ok"]
        if mode == "late":
            return ["refused"] * rnd.randint(1, 3) + ["ok"]
        return ["slow:%d" % rnd.choice([100 * MS, 900 * MS, 1500 * MS]), "ok"]

    def targets(self, n, modes, dt):
        out = []
        for i in range(n):
            out.append({"name": H(self.tname()), "probes": self.script(self.rnd.choice(modes), dt)})
        return out

    def timeouts(self):
        rnd = self.rnd
        dt = rnd.choice([0, 1, 500 * MS, SEC, SEC, 2 * SEC, 2 * SEC + 1, 3 * SEC, 5 * SEC])
        drt = rnd.choice([0, 1, 500 * MS, SEC, SEC, 3 * SEC, 3 * SEC - 1])
        return dt, drt

    def deploy(self, name, kind="good", async_=True, host=None, op="deploy"):
        rnd = self.rnd
        dt, drt = self.timeouts()
        if kind == "good":
            if dt < 2:
                dt = rnd.choice([SEC, 2 * SEC, 5 * SEC])
            modes = ["ok", "ok", "ok", "late", "slowok"] if dt >= 5 * SEC else ["ok", "ok", "slowok" if dt >= 2 * SEC else "ok"]
        elif kind == "edge":
            modes = ["edge", "edge", "ok"]
        else:
            modes = ["never", "never", "ok", "late"]
        n = rnd.choice([1, 1, 2, 3])
        tg = self.targets(n, modes, dt)
        if kind == "bad" and all(t["probes"][-1] == "ok" for t in tg):
            tg[rnd.randrange(n)]["probes"] = self.script("never", dt)
        if kind == "invalid":
            tg[rnd.randrange(n)]["name"] = H(rnd.choice([b"bad name", b"-x:80", b"a", b"t!:80"]))
        st = {"op": op, "id": self.cid(), "async": async_, "name": H(name), "targets": tg,
              "deploy_timeout": dt, "drain_timeout": drt}
        if op == "deploy":
            st.update({"hosts": [H(host or HOSTS[name])], "prefixes": [], "tls": False, "tls_redirect": False, "strip": True,
                       "cert": "none", "pages": "none",
                       "topts": {"interval": INTERVAL, "timeout": rnd.choice([500 * MS, 5 * SEC, 60 * SEC])}})
        self.steps.append(st)
        return dt, drt

    def requests(self, name, drt):
        """requests in flight when a drain with timeout drt starts right after"""
        rnd = self.rnd
        for _ in range(rnd.choice([0, 1, 1, 2, 3, 4])):
            self.nreq += 1
            beh = rnd.choice(["hang", "hang", "delay:%d" % max(drt - 1, 1), "delay:%d" % max(drt, 1), "delay:%d" % (drt + 1),
                              "delay:%d" % (100 * MS), "reply", "delay:%d" % (10 * SEC), "fault:boom"])
            self.steps.append({"op": "request", "id": "r%d" % self.nreq, "async": True, "host": H(HOSTS[name]),
                               "uri": H(b"/x"), "behaviour": beh, "headers": [], "method": "GET"})

    def pause_like(self, name):
        rnd = self.rnd
        k = rnd.choice(["pause", "stop"])
        _, drt = self.timeouts()
        self.requests(name, drt)
        st = {"op": k, "id": self.cid(), "async": True, "name": H(name), "drain_timeout": drt}
        if k == "pause":
            st["fail_after"] = rnd.choice([1, 2, 30]) * SEC
        else:
            st["msg"] = H(b"stopped")
        self.steps.append(st)
        return drt

    def simple(self, k, name):
        st = {"op": k, "id": self.cid(), "async": True, "name": H(name)}
        if k == "rollout_set":
            st.update({"pct": self.rnd.choice([0, 50, 100]), "allow": []})
        self.steps.append(st)

    def gap(self, *durs):
        rnd = self.rnd
        d = rnd.choice(list(durs) + [0, 1, 500 * MS, SEC, 12 * INTERVAL])
        self.steps.append({"op": "sleep", "ns": d} if d > 0 else {"op": "settle"})

    def gen(self, n_episodes):
        rnd = self.rnd
        for name in [b"web", b"api"][:rnd.choice([1, 2, 2])]:
            self.deploy(name, "good", async_=False)
            self.live.add(name)
        for _ in range(n_episodes):
            name = rnd.choice([b"web", b"api"])
            ep = rnd.choice(["redeploy", "redeploy", "edge", "bad", "pause", "remove", "conflict", "invalid", "rollout",
                             "simple", "overlap", "overlap2", "rollout_remove"])
            if self.yields and rnd.random() < 0.3:
                self.steps.append({"op": "arm", "point": rnd.choice(m5.POINTS), "n": 1})
            if ep in ("redeploy", "edge", "bad"):
                # peek at the drain timeout first so that the requests can straddle it
                state = rnd.getstate()
                _, drt = self.timeouts()
                rnd.setstate(state)
                if name in self.live:
                    self.requests(name, drt)
                kind = {"redeploy": "good", "edge": "edge", "bad": "bad"}[ep]
                dt, drt = self.deploy(name, kind)
                if kind == "good":
                    self.live.add(name)
                self.gap(dt, drt, dt + drt, dt + drt + 12 * INTERVAL)
            elif ep == "pause" and name in self.live:
                drt = self.pause_like(name)
                self.gap(drt, drt + 1, 12 * INTERVAL)
                if rnd.random() < 0.7:
                    self.simple("resume", name)
            elif ep == "remove" and name in self.live:
                self.simple("remove", name)
                self.live.discard(name)
                self.gap(12 * INTERVAL, 12 * INTERVAL)
            elif ep == "conflict" and b"web" in self.live:
                dt, drt = self.deploy(b"zz", "good")
                self.gap(dt + 12 * INTERVAL, 12 * INTERVAL)
            elif ep == "invalid":
                self.deploy(name, "invalid")
                self.gap()
            elif ep == "rollout" and name in self.live:
                dt, drt = self.deploy(name, rnd.choice(["good", "good", "edge", "bad"]), op="rollout_deploy")
                self.gap(dt, dt + drt)
                self.simple("rollout_set", name)
            elif ep == "rollout_remove" and name in self.live:
                # a service that HAS rollout targets - with a split in force, after `rollout stop`, or never split - is removed:
                # the probing of the rollout targets must end too
                dt, drt = self.deploy(name, "good", op="rollout_deploy")
                self.gap(dt + drt)
                mode = rnd.choice(["none", "set", "set_stop"])
                if mode != "none":
                    self.simple("rollout_set", name)
                if mode == "set_stop":
                    self.simple("rollout_stop", name)
                self.simple("remove", name)
                self.live.discard(name)
                self.gap(12 * INTERVAL, 12 * INTERVAL)
            elif ep == "simple":
                self.simple(rnd.choice(["rollout_set", "rollout_stop", "resume", "remove" if name not in self.live else "resume"]), name)
                self.gap()
            elif ep == "overlap" and name in self.live:
                # a pause / stop while a deploy of the same service drains (or the other way round)
                state = rnd.getstate()
                _, drt = self.timeouts()
                rnd.setstate(state)
                self.requests(name, drt)
                self.deploy(name, "good")
                self.steps.append({"op": "sleep", "ns": rnd.choice([1, 100 * MS, SEC])})
                self.pause_like(name)
                self.gap(5 * SEC)
                self.simple("resume", name)
            elif ep == "overlap2":
                # two deploys of the same service at once
                self.requests(name, SEC) if name in self.live else None
                self.deploy(name, "good")
                if rnd.random() < 0.5:
                    self.steps.append({"op": "sleep", "ns": rnd.choice([1, 500 * MS, SEC])})
                self.deploy(name, rnd.choice(["good", "edge", "bad"]))
                self.live.add(name)
                self.gap(5 * SEC)
        if self.yields:
            for _ in range(3):
                for pt in m5.POINTS:
                    self.steps.append({"op": "release", "point": pt, "who": ""})
        self.steps.append({"op": "sleep", "ns": 25 * INTERVAL})
        self.steps.append({"op": "c17_flush"})
        self.steps.append({"op": "observe", "id": "final"})
        return {"steps": self.steps}


# ------------------------------------------------------------------ run ----

IMPORTS = "From KP Require Import model.Base model.Trace model.M5time corr.C17corr."
CODES = {1: "deploy-bound", 2: "pause-stop-bound", 3: "non-blocking", 4: "probe-after-dead", 9: "bounds-monitor (standalone)"}


# kinds that neither the view nor the monitor reads; such events by non-command actors are
# projected away before the trace goes to Coq (they would only advance the view's clock)
UNREAD = {"probe-apply", "rotation", "routed", "pick", "gate-read", "gate-result", "gate-wake", "lb-claim", "at-target",
          "target-replied", "target-failed", "arrive", "respond", "claim-refused", "hijacked"}


def project(events):
    return [e for e in events if not (e["kind"] in UNREAD and not re.fullmatch(r"c\d+", e["g"] or ""))]


def trace_def(events, name="tr", lits=None):
    """Coq text defining tr; repeated byte-string literals are shared through definitions"""
    term = m5.trace_term(events)
    lits = {} if lits is None else lits
    known = len(lits)

    def sub(m):
        return lits.setdefault(m.group(0), "s_%d" % len(lits))
    term = re.sub(r"\[x[0-9a-f]{2}(?:;x[0-9a-f]{2})*\]", sub, term)
    defs = "".join("Definition %s : str := %s.\n" % (v, k) for k, v in list(lits.items())[known:])
    return defs + "Definition %s : trace := %s.\n" % (name, term)


def parse_eval(txt):
    """'[(None, []); (Some 12, [(5, 4); (9, 1)])]' (with optional %nat / %N) -> [(rej, fails)]; strict"""
    import ast
    t = re.sub(r"%(nat|N)", "", txt.strip())
    if not re.fullmatch(r"[\[\]\(\),; 0-9\s]*(?:(?:None|Some)[\[\]\(\),; 0-9\s]*)*", t):
        raise RuntimeError("unexpected eval term: " + t[:300])
    v = ast.literal_eval(t.replace(";", ",").replace("Some ", ""))
    return [(r, [tuple(f) for f in fs]) for r, fs in v]


def term_items(events):
    """the python-side list parallel to m5.trace_term (to map positions back)"""
    items, seen = [], set()
    for e in events:
        for a in e["args"]:
            for x in (a if isinstance(a, list) else [a]):
                if isinstance(x, str) and re.fullmatch(r"[ST]\d+:.*", x, re.S) and x not in seen:
                    seen.add(x)
                    items.append({"kind": "name", "args": [x], "t": e["t"], "g": ""})
        items.append(e)
        if e["kind"] == "issue" and len(e["args"]) >= 6:
            items.append({"kind": "params", "args": e["args"], "t": e["t"], "g": e["g"]})
    return items


def command_stats(events):
    """(kind, result, bucket of elapsed/bound) per returned command; parked commands are marked"""
    issue, out, parked = {}, [], False
    for e in events:
        if e["kind"] == "parked":
            parked = True
        if e["kind"] == "issue":
            a = e["args"]
            issue[a[0]] = (a[1], e["t"], a[3], a[4])
        if e["kind"] == "return" and e["args"][0] in issue:
            k, ti, dt, drt = issue[e["args"][0]]
            el = e["t"] - ti
            bound = dt + drt if k in ("deploy", "rollout_deploy") else drt if k in ("pause", "stop") else 0
            if parked:
                b = "parked-trace"
            elif el == 0:
                b = "0"
            elif bound and el == bound:
                b = "=bound"
            elif el < bound:
                b = "<bound" if el * 2 >= bound else "<bound/2"
            else:
                b = ">bound"
            out.append((k, e["args"][1], b))
    return out


def run_scenarios(work, scenarios, timeout):
    """m5.run_scenarios with a bound on the harness run: a mutant whose probe loops never stop keeps the
    virtual clock running for ever (synctest.Run waits for every goroutine of the bubble)."""
    write_jsonl(work.path("m5scen.jsonl"), scenarios)
    try:
        rc, gout = go_test(work, ["common_test.go", "sim_test.go", "simrun_test.go", "assets_test.go", "c17_test.go"], "^TestVerifSim$",
                           {"VERIF_IN": work.path("m5scen.jsonl"), "VERIF_OUT": work.path("m5out.jsonl"),
                            "VERIF_PARTIAL": work.path("m5partial.jsonl"), "VERIF_HANG_S": "60"}, synctest=True, timeout=timeout)
    except subprocess.TimeoutExpired:
        rc, gout = 1, "harness run exceeded %d s (goroutines that never stop keep the virtual clock running)" % timeout
    m5.read_hang(work, scenarios)
    note_crash(work.path("m5out.jsonl"), scenarios, rc, gout)
    if rc != 0 or not os.path.exists(work.path("m5out.jsonl")):
        # the scenarios that did run flushed their traces
        part = read_jsonl(work.path("m5partial.jsonl")) if os.path.exists(work.path("m5partial.jsonl")) else []
        return False, gout, part
    outs = read_jsonl(work.path("m5out.jsonl"))
    return len(outs) == len(scenarios), gout, outs


def run(tier, seed):
    res = Result("C17", tier, seed)
    work = Work("C17")
    try:
        ok, blog = coq_build(["props/C17.vo", "corr/C17corr.vo"])
        proofs_ok, pa = proof_obligations(work, res, "C17.v", ok, blog)
        rnd = random.Random(seed)
        n = 110 if tier == "quick" else 1500
        n_y = 10 if tier == "quick" else 300          # scenarios with armed yields (acceptor in structural mode)
        scs = [Gen17(rnd).gen(rnd.randint(3, 9)) for _ in range(n)]
        scs += [Gen17(rnd, yields=True).gen(rnd.randint(3, 9)) for _ in range(n_y)]
        harness_ok, gout, outs = run_scenarios(work, scs, 400 if tier == "quick" else 1800)
        rejected, mon_fail = [], []
        stats = collections.Counter()
        nevents = 0
        if outs and ok:
            from concurrent.futures import ThreadPoolExecutor

            BATCH = 6

            def ev(j):
                idx = list(range(j, min(j + BATCH, len(outs))))
                lits = {}
                body = "".join(trace_def(project(outs[i]["events"]), "tr_%d" % i, lits) for i in idx)
                body += "Definition R := Eval vm_compute in [%s].\n" % "; ".join("eval_trace tr_%d" % i for i in idx)
                return idx, parse_eval(coq_eval(work, "T_%d" % j, IMPORTS, body, "R"))
            with ThreadPoolExecutor(max_workers=16) as ex:
                for idx, rs in ex.map(ev, range(0, len(outs), BATCH)):
                    if len(rs) != len(idx):
                        raise RuntimeError("evaluation lost a trace")
                    for i, (rej, fails) in zip(idx, rs):
                        nevents += len(outs[i]["events"])
                        if rej is not None:
                            rejected.append((i, rej))
                        if fails:
                            mon_fail.append((i, fails))
                        for st in command_stats(outs[i]["events"]):
                            stats["%s/%s/%s" % st] += 1
        # a scenario whose trace is rejected or fails the monitor is run again alone before it is reported (a goroutine switch forced by
        # the runtime's monitor thread inside a lock region - CPU contention - splits the region's events and does not reproduce)
        not_reproduced = []
        if outs and ok:
            for i in sorted({x[0] for x in rejected + mon_fail})[:8]:
                ok2, _, o2 = run_scenarios(work, [scs[i]], 300)
                if ok2 and o2:
                    lits = {}
                    body = trace_def(project(o2[0]["events"]), "tr_0", lits) + "Definition R := Eval vm_compute in [eval_trace tr_0].\n"
                    rej2, fails2 = parse_eval(coq_eval(work, "Tre_%d" % i, IMPORTS, body, "R"))[0]
                    if rej2 is None and not fails2:
                        not_reproduced.append({"scenario_index": i, "first_run": [list(map(str, x)) for x in rejected + mon_fail if x[0] == i]})
                        rejected = [x for x in rejected if x[0] != i]
                        mon_fail = [x for x in mon_fail if x[0] != i]
                        outs[i] = o2[0]
        probes = sum(1 for o in outs for e in o["events"] if e["kind"] == "probe-sent")
        waits_false = sum(1 for o in outs for e in o["events"] if e["kind"] == "waiter" and not e["args"][1])
        deadlines = sum(1 for o in outs for e in o["events"] if e["kind"] == "drain-deadline")
        distinct = len({json.dumps(s, sort_keys=True) for s in scs})
        nontrivial = len({json.dumps(scs[i], sort_keys=True) for i, o in enumerate(outs)
                          if any(e["kind"] in ("drain-deadline", "waiter") and (e["kind"] == "drain-deadline" or not e["args"][1])
                                 for e in o["events"])})
        res.coverage.update({
            "evaluations": len(scs), "distinct_nontrivial": nontrivial,
            "rule": "random episodes (redeploy with requests in flight that hang or end at the drain deadline -1/0/+1 ns; targets that never "
                    "answer probes, answer at the deploy deadline -1/0/+1 ns or at the tick around it, flap; failing deploys; host conflict; "
                    "invalid target name; pause/stop/resume; remove; rollout deploy/set/stop; pause during a deploy's drain; two deploys of one "
                    "service at once), timeouts drawn from sets containing 0 and 1 ns, a sleep of >= 12 probe intervals after many commands and "
                    "25 at the end; %d scenarios without yields (strict timing rules) + %d with armed yields (structural rules only). "
                    "distinct = by scenario JSON (%d distinct); non-trivial = a waiter timed out or a drain deadline fired in the run"
                    % (n, n_y, distinct),
            "traces_validated_against_impl": len(outs), "events": nevents,
            "input_distribution": {"probe-sent": probes, "waiter-timeouts": waits_false, "drain-deadlines": deadlines},
            "outcome_distribution": dict(sorted(stats.items())),
            "samples": [scs[0]] if scs else [],
            "correspondence": {"traces": len(outs), "rejected_by_acceptor": len(rejected), "monitor_failures": len(mon_fail),
                               "failures_not_reproduced_on_rerun": not_reproduced},
            "not_generated": "upgraded (hijacked) connections: the harness' ResponseRecorder is not an http.Hijacker",
        })
        res.notes.append("link proved in corr/C17corr.v: accepted_bounds_ok (accepted tr -> c17_bounds_ok tr); the probe part of the "
                         "monitor (code 4) is tied to the view only by evaluating both on every trace")
        res.assumptions = [
            "virtual clock (testing/synctest): timers fire exactly and CPU time is zero; the timing theorems are stated for traces without KParked",
            "model/M5time.v is hand-written; tied to router.go/load_balancer.go/target.go/health_check.go/service.go only by this correspondence run",
            "probe I/O and target I/O are scripted (http.DefaultTransport / ReverseProxy.Transport replaced); real sockets are not exercised",
        ]
        # probe leaks under the real scheduler: a redeploy and a removal of one service issued together (harness/c17_race_test.go)
        race_rows, race_out = [], ""
        if harness_ok or outs:
            rc_r, race_out = go_test(work, ["common_test.go", "sim_test.go", "simrun_test.go", "assets_test.go", "c17_test.go", "c17_race_test.go"],
                                     "^TestVerifC17Race$", {"VERIF_OUT": work.path("c17race.jsonl"), "VERIF_ROUNDS": "30" if tier == "quick" else "300"},
                                     synctest=True, timeout=900)
            if rc_r == 0 and os.path.exists(work.path("c17race.jsonl")):
                race_rows = read_jsonl(work.path("c17race.jsonl"))
            else:
                harness_ok, gout = False, race_out
        race_bad = [r for r in race_rows if r["probed_but_not_listed"]]
        res.coverage["redeploy_vs_remove_race"] = {
            "rounds": len(race_rows), "outcomes": dict(collections.Counter("deploy:%s remove:%s listed:%d" % (r["deploy"], r["remove"], r["listed_targets"])
                                                                           for r in race_rows)),
            "rounds_with_a_probed_target_no_service_lists": len(race_bad)}
        if race_bad and not mon_fail:
            res.violation("race-leak", {"property": "C17", "seed": seed, "tier": tier,
                                        "what": "a redeploy and a removal of one service issued together (real scheduler): after both commands have "
                                                "returned the proxy keeps probing a target that no listed service has - nothing will ever stop that loop",
                                        "rounds": race_bad[:3],
                                        "replay": "go test -run TestVerifC17Race (harness/c17_race_test.go), real scheduler"})
            return res.finish()
        if mon_fail:
            i, fails = mon_fail[0]
            items = term_items(project(outs[i]["events"]))
            pos, code = fails[0]
            res.violation("monitor-%d" % i, {"property": "C17", "what": "monitor c17_ok false on an implementation trace: " + CODES.get(code, str(code)),
                                             "failures": [[p, CODES.get(c, str(c)), items[p] if p < len(items) else None] for p, c in fails[:10]],
                                             "scenario": scs[i], "seed": seed, "tier": tier,
                                             "replay": "VERIF_IN=<file with this scenario as one JSON line> go test -tags verif -overlay ... -run ^TestVerifSim$ (tools/m5.run_scenarios)"})
        elif not harness_ok and m5.last_hang and m5.last_hang["scenario"] and not rejected:
            # a concrete history on which commands / requests never come back
            h = m5.last_hang
            res.violation("hang-%d" % h["index"], {
                "property": "C17", "seed": seed, "tier": tier, "scenario": h["scenario"],
                "what": "this scenario does not end on the real code within %d s of REAL time (normally a fraction of a second): "
                        "a command or request is blocked on a lock that another one holds while it waits (the virtual clock "
                        "cannot advance), or goroutines started for a command never stop - commands do not return within "
                        "their timeouts / without waiting" % h["limit_s"],
                "goroutine_stacks": h["stacks"],
                "replay": "VERIF_IN=<file with this scenario as one JSON line> go test -tags verif -overlay ... -run ^TestVerifSim$ (tools/m5.run_scenarios)"})
        elif rejected or not harness_ok or not proofs_ok:
            what = ("the timing view rejects an implementation trace" if rejected else
                    "harness does not build/run against the tree" if not harness_ok else "proof obligations of props/C17.v do not check")
            payload = {"property": "C17", "what": what, "seed": seed, "tier": tier,
                       "broken": "model/M5time.v step" if rejected else "harness/sim_test.go" if not harness_ok else "props/C17.v"}
            if rejected:
                i, k = rejected[0]
                items = term_items(project(outs[i]["events"]))
                payload.update({"scenario": scs[i], "rejected_at": k, "event": items[k] if k < len(items) else None,
                                "context": items[max(0, k - 15):k], "rejected_traces": len(rejected)})
            if not harness_ok:
                payload["harness_output"] = gout[-3000:]
            if not proofs_ok:
                payload["coq_output"] = (blog + pa)[-3000:]
            res.violation("broken", payload, no_input=True)
        return res.finish()
    finally:
        work.cleanup()


if __name__ == "__main__":
    sys.exit(run(sys.argv[1] if len(sys.argv) > 1 else "quick", int(os.environ.get("VERIF_SEED", "1"))))
