"""C15 — target failures become well-formed 502/504 responses, never hangs:
fault enumeration against the real chain (harness/c15_test.go), comparison with
model/ProxyError.v + model/ErrorPage.v and the monitor of corr/C15corr.v, plus
the proof obligations of props/C15.v."""
import random

from vlib import *

PROP = "C15"
TIMEOUT_MS = 500          # the services' target timeout (real time)
MARGIN_MS = 300           # stalls are timeout -/+ margin
EPS_MS = 1500             # "promptly": elapsed <= timeout + eps
HANG_MS = TIMEOUT_MS + 3000   # the raw client gives up: a hang

BEFORE = ["refused", "close_immediately", "close_after_read", "reset_before", "garbage",
          "partial_status", "partial_header", "early_hints_close"]
SILENT = ["silence", "stall_long"]
UNBOUNDED = ["dial_blackhole", "write_stall"]
AFTER = ["reset_mid_cl", "close_mid_cl", "close_mid_chunk", "no_terminal_chunk", "bad_chunk_size", "reset_mid_eof"]
DIAL_LEVEL = ["refused", "close_immediately", "dial_blackhole", "write_stall"]
GOOD = ["ok_cl", "ok_chunked", "stall_short", "cl_too_small"]

# s6, s7: custom pages for some statuses only (no 504.html): a gateway timeout falls back to the built-in page
SERVICES = [{"name": "s%d" % i, "buffer_req": bool(i & 1), "buffer_resp": bool(i & 2), "custom": bool(i & 4), "partial": i >= 6}
            for i in range(8)]


def mk_step(rnd, sid, kind):
    st = {"id": sid, "kind": kind, "fault": kind, "method": "GET", "req_len": 0, "status": 200,
          "body_start": rnd.randint(0, 250), "body_len": rnd.choice([0, 1, 17, 1000, 5000]), "prefix_len": 0,
          "keepalive": rnd.random() < 0.5}
    if rnd.random() < 0.3 and kind not in ("write_stall",):
        st["method"] = "POST"
        st["req_len"] = rnd.choice([0, 10, 3000])
    if kind == "stall_short":
        st["fault"] = "stall"
        st["stall_ms"] = TIMEOUT_MS - MARGIN_MS
    elif kind == "stall_long":
        st["fault"] = "stall"
        st["stall_ms"] = TIMEOUT_MS + MARGIN_MS
    elif kind in AFTER or kind == "cl_too_small":
        big = rnd.random() < 0.4
        st["body_len"] = rnd.choice([70000, 200000]) if big else rnd.choice([10, 100, 3000])
        st["prefix_len"] = rnd.choice([0, 1, st["body_len"] // 2, st["body_len"] - 1])
        if kind == "cl_too_small":
            st["prefix_len"] = rnd.choice([0, 1, st["body_len"] // 2])
        st["status"] = rnd.choice([200, 200, 201, 404, 500])
    elif kind == "write_stall":
        st["method"] = "POST"
        st["req_len"] = 8 << 20
        st["hold_ms"] = HANG_MS + 500
    if kind in GOOD and kind != "cl_too_small":
        st["status"] = rnd.choice([200, 200, 204 if st["body_len"] == 0 else 200, 404, 500, 502, 504])
    return st


def gen_cases(seed, tier):
    rnd = random.Random(seed)
    cases = [{"kind": "config", "timeout_ms": TIMEOUT_MS, "hang_ms": HANG_MS, "services": SERVICES}]
    sid = [0]

    def seq(svc, kinds):
        steps = []
        for k in kinds:
            sid[0] += 1
            steps.append(mk_step(rnd, sid[0], k))
            if k in DIAL_LEVEL and len(steps) > 1:
                steps[-2]["keepalive"] = False     # a dial fault needs a fresh connection
        steps[-1]["keepalive"] = False
        cases.append({"kind": "seq", "svc": svc, "steps": steps})

    # every fault kind on every configuration, each followed by a good request
    for svc in range(8):
        for k in BEFORE + AFTER:
            seq(svc, [k, rnd.choice(["ok_cl", "ok_chunked"])])
        for k in ["silence", "stall_long", "stall_short", "cl_too_small"]:
            seq(svc, [k, "ok_cl"])
    # truncation after a large part of a Content-Length body has already been passed on
    for svc in range(8):
        for k in ["close_mid_cl", "reset_mid_cl"]:
            sid[0] += 1
            st = mk_step(rnd, sid[0], k)
            st["body_len"] = rnd.choice([70000, 200000])
            st["prefix_len"] = st["body_len"] // 2 + rnd.randint(0, 1000)
            sid[0] += 1
            cases.append({"kind": "seq", "svc": svc, "steps": [st, dict(mk_step(rnd, sid[0], "ok_cl"), keepalive=False)]})
    # the two stalls outside the response-header phase (a few: each one costs the client's patience)
    for svc in rnd.sample(range(8), 2 if tier == "quick" else 8):
        seq(svc, ["dial_blackhole", "ok_cl"])
    for svc in rnd.sample(range(8), 1 if tier == "quick" else 4):
        seq(svc, ["write_stall", "ok_cl"])
    # clients that are gone when their error page is written (paused service, connection reset while waiting, target refusing
    # after the resume): nothing of the page that could not be delivered may reach a later client of any service
    for svc in range(8):
        for k in rnd.sample(BEFORE, 2 if tier == "quick" else 6):
            seq(svc, [k, rnd.choice(BEFORE), "ok_cl"])
            cases[-1]["steps"][0]["gone_before"] = rnd.choice([2, 4, 8])
            cases[-1]["steps"][1]["gone_before"] = rnd.choice([0, 3])
    # sequences of k faults then a good request
    n_seq = 16 if tier == "quick" else 330
    pool = BEFORE * 3 + AFTER * 2 + GOOD + ["silence", "stall_long"]
    for _ in range(n_seq):
        k = rnd.randint(2, 6)
        seq(rnd.randrange(8), [rnd.choice(pool) for _ in range(k)] + [rnd.choice(["ok_cl", "ok_chunked"])])
    return cases


def gen_stall_cases(seed, tier):
    rnd = random.Random(seed + 1)
    out = []
    T0 = 30 * 10**9
    deltas = [-10**9, -1, 0, 1, 10**9, 10 * T0]
    for i in range(8):
        for d in deltas:
            out.append({"phase": "headers", "timeout_ns": T0, "delay_ns": T0 + d if d != 10 * T0 else 10 * T0,
                        "give_up_ns": 4 * T0, "buffer_req": bool(i & 1), "buffer_resp": bool(i & 2), "custom": bool(i & 4)})
    for i in (0, 3, 5):
        out.append({"phase": "write", "timeout_ns": T0, "delay_ns": 10 * T0, "give_up_ns": 4 * T0,
                    "buffer_req": bool(i & 1), "buffer_resp": bool(i & 2), "custom": bool(i & 4)})
    for _ in range(20 if tier == "quick" else 400):
        T = rnd.choice([1, 10**6, 5 * 10**9, 30 * 10**9, 3600 * 10**9])
        d = max(0, T + rnd.choice([-10**9, -1000, -1, 0, 1, 1000, 10**9, rnd.randint(-T, T)]))
        i = rnd.randrange(8)
        out.append({"phase": "headers", "timeout_ns": T, "delay_ns": d, "give_up_ns": 4 * T + 10**9,
                    "buffer_req": bool(i & 1), "buffer_resp": bool(i & 2), "custom": bool(i & 4)})
    return out


# ---------------------------------------------------------------- Coq terms ----

KIND = {"ok_cl": "WfOkCL", "ok_chunked": "WfOkChunked", "stall_short": "WfStallShort", "cl_too_small": "WfClTooSmall",
        "refused": "WfRefused", "close_immediately": "WfCloseImmediately", "close_after_read": "WfCloseAfterRead",
        "reset_before": "WfResetBefore", "garbage": "WfGarbage", "partial_status": "WfPartialStatus",
        "partial_header": "WfPartialHeader", "early_hints_close": "WfEarlyHintsClose", "silence": "WfSilence",
        "stall_long": "WfStallLong", "dial_blackhole": "WfDialBlackhole", "write_stall": "WfWriteStall",
        "reset_mid_cl": "WfResetMidCL", "close_mid_cl": "WfCloseMidCL", "close_mid_chunk": "WfCloseMidChunk",
        "no_terminal_chunk": "WfNoTerminalChunk", "bad_chunk_size": "WfBadChunkSize", "reset_mid_eof": "WfResetMidEOF"}

TPL_504 = b"custom504[{{ if .Message }}{{ .Message }}{{ else }}none{{ end }}]"     # harness/c15_test.go
KNOWN_IDS = {1: "C15-F1-dial-not-bounded", 2: "C15-F2-request-write-not-bounded", 3: "C15-F3-unread-body-stuck-in-dial"}
HTML = "text/html; charset=utf-8"


def body_bytes(start, n):
    return bytes(((start + i) % 251) for i in range(n))


class Pages:
    """Table of the distinct large byte strings of one generated Coq file."""

    def __init__(self):
        self.items = []
        self.index = {}

    def ref(self, bs):
        if bs not in self.index:
            self.index[bs] = len(self.items)
            self.items.append(bs)
        return "(pg pages %d)" % self.index[bs]

    def term(self, bs, start=None):
        if len(bs) <= 64:
            return str_lit(bs)
        if start is not None and bs == body_bytes(start, len(bs)):
            return "(pat %d %d)" % (start, len(bs))
        return self.ref(bs)


def svc_term(s):
    return "(mkSvc %s %s %s)" % (bool_lit(s["buffer_req"]), bool_lit(s["buffer_resp"]), bool_lit(s["custom"]))


def step_terms(pages, st, so):
    start = st["body_start"]
    i = "(mkStepIn %d %s %d %s %d)" % (st["id"], KIND[st["kind"]], st["status"],
                                       "(pat %d %d)" % (start, st["body_len"]) if st["body_len"] > 64
                                       else str_lit(body_bytes(start, st["body_len"])), st["prefix_len"])
    wf = bool(so.get("wellformed"))
    body = bytes.fromhex(so.get("body", "")) if wf else b""
    sent = so.get("sent_at_ms", -1)
    o = "(mkStepObs %s %d %s %d %s %s %s %d %d %s %d)" % (
        bool_lit(so.get("hang", False)), so.get("raw_len", 0), bool_lit(wf), so.get("status", 0) if wf else 0,
        bool_lit(wf and so.get("ct") == HTML), pages.term(body, start), bool_lit(wf and so.get("complete", False)),
        so.get("extra", 0) if wf else 0, so.get("elapsed_ms", 0),
        "None" if sent is None or sent < 0 else "(Some %d)" % sent, max(so.get("inflight_after", 1), 0) if so.get("inflight_after", 1) >= 0 else 1)
    return "(%s, %s)" % (i, o)


def bev_term(ev):
    if ev[0] == "claim":
        return "BClaim %d" % ev[1]
    if ev[0] == "end":
        return "BEnd %d" % ev[1]
    return "BSnap [%s]" % ";".join("%d%%nat" % x for x in ev[1])


def seq_term(pages, c, o):
    steps = list_lit([step_terms(pages, st, so) for st, so in zip(c["steps"], o["steps"])])
    evs = list_lit([bev_term(e) for e in (o.get("events") or [])])
    return "CaseSeq %s (mkSeqObs %s %d %d %s)" % (svc_term(SERVICES[c["svc"]]), steps, o["drain_ms"],
                                                   max(o["inflight_end"], 0) if o["inflight_end"] >= 0 else 1, evs)


def stall_term(pages, c, o):
    i = "(mkStallIn %s %d %d %s)" % (bool_lit(c["phase"] == "write"), c["timeout_ns"], c["delay_ns"], svc_term(c))
    body = bytes.fromhex(o.get("body", ""))
    ob = "(mkStallObs %s %d %s %s %d %d %d)" % (
        bool_lit(o.get("hang", True)), o.get("status", 0), bool_lit(o.get("ct") == HTML), pages.term(body),
        o.get("elapsed_ns", 0), o.get("inflight_after", 1), o.get("drain_ns", 1))
    return "CaseStall %s %s" % (i, ob)


def read_builtin():
    d = os.path.join(REPO, "internal", "pages")
    out = {}
    for f in sorted(os.listdir(d)):
        m = re.fullmatch(r"(\d+)\.html", f)
        if m:
            b = open(os.path.join(d, f), "rb").read()
            if b"{{" not in b:          # static pages only (503 takes a message: model/Html.v)
                out[int(m.group(1))] = b
    return out


def tpl_term(pages, table):
    return list_lit(["(%d, %s)" % (k, pages.term(v)) for k, v in sorted(table.items())])


def evaluate(work, name, builtin, custom, terms):
    pages = Pages()
    terms = [t(pages) for t in terms]
    env = "mkEnv %d %d %d %d %s %s" % (TIMEOUT_MS, MARGIN_MS - 100, EPS_MS, 1000, tpl_term(pages, builtin), tpl_term(pages, custom))
    body = ("Definition pages : list str := %s.\nDefinition e : env := %s.\n"
            "Definition cases : list c15_case := %s.\nDefinition R := Eval vm_compute in failures e cases.\n") % (
        list_lit([str_lit(b) for b in pages.items]), env, "[\n" + ";\n".join(terms) + "]")
    txt = coq_eval(work, name, "From KP Require Import model.Base model.Trace model.Buffer model.ProxyError model.ErrorPage "
                               "corr.C15corr.\nLocal Open Scope N_scope.", body, "R")
    return parse_failures(txt)


def evaluate_f3(work, name, builtin, custom, c, o):
    """corr/C15f3.f3_excused on one sequence: is it fine apart from requests with an unread body stuck in an unbounded dial?"""
    pages = Pages()
    steps = list_lit([step_terms(pages, st, so) for st, so in zip(c["steps"], o["steps"])])
    evs = list_lit([bev_term(e) for e in (o.get("events") or [])])
    q = "(mkSeqObs %s %d %d %s)" % (steps, o["drain_ms"], max(o["inflight_end"], 0) if o["inflight_end"] >= 0 else 1, evs)
    unread = list_lit([bool_lit(st.get("req_len", 0) > 0) for st in c["steps"]])
    env = "mkEnv %d %d %d %d %s %s" % (TIMEOUT_MS, MARGIN_MS - 100, EPS_MS, 1000, tpl_term(pages, builtin), tpl_term(pages, custom))
    body = ("Definition pages : list str := %s.\nDefinition e : env := %s.\n"
            "Definition R := Eval vm_compute in f3_excused e %s %s 10000 %s.\n") % (
        list_lit([str_lit(b) for b in pages.items]), env, svc_term(SERVICES[c["svc"]]), unread, q)
    txt = coq_eval(work, name, "From KP Require Import model.Base model.Trace model.Buffer model.ProxyError model.ErrorPage "
                               "corr.C15corr corr.C15f3.\nLocal Open Scope N_scope.", body, "R").strip()
    if txt not in ("true", "false"):
        raise RuntimeError("unexpected f3 verdict: " + txt[:200])
    return txt == "true"


def execute(work, cases, stalls):
    """Run both harness tests; (ok, output, observations, stall observations)."""
    write_jsonl(work.path("cases.jsonl"), cases)
    write_jsonl(work.path("stalls.jsonl"), stalls)
    files = ["common_test.go", "assets_test.go", "c15_test.go"]
    for f in ("obs.jsonl", "sobs.jsonl"):
        if os.path.exists(work.path(f)):
            os.remove(work.path(f))
    rc, out = go_test(work, files, "^TestVerifC15$",
                      {"VERIF_IN": work.path("cases.jsonl"), "VERIF_OUT": work.path("obs.jsonl")}, synctest=True)
    rc2, out2 = go_test(work, files, "^TestVerifC15Stall$",
                        {"VERIF_IN": work.path("stalls.jsonl"), "VERIF_OUT": work.path("sobs.jsonl")}, synctest=True)
    ok = rc == 0 and rc2 == 0 and os.path.exists(work.path("obs.jsonl")) and os.path.exists(work.path("sobs.jsonl"))
    obs = read_jsonl(work.path("obs.jsonl")) if ok else []
    sobs = read_jsonl(work.path("sobs.jsonl")) if ok else []
    if ok and (len(obs) != len(cases) or len(sobs) != len(stalls)
               or any(o.get("kind") != "seq" or len(o["steps"]) != len(c["steps"]) for c, o in zip(cases[1:], obs[1:]))
               or any("err" in o for o in sobs)):
        ok = False
    if not ok:
        obs, sobs = [{}], []
    return ok, out + out2, obs, sobs


def judge(work, all_cases, obs0):
    """Evaluate corr.C15corr.failures in the kernel: ({index: (agree, monitor)}, {index: {finding: monitor modulo it}})."""
    failing, known = {}, {}
    builtin = read_builtin()
    custom = {}
    for fname, hx in (obs0.get("custom_pages") or {}).items():
        m = re.fullmatch(r"(\d+)\.html", fname)
        b = bytes.fromhex(hx)
        if m and b == TPL_504:
            custom[int(m.group(1))] = b"custom504[none]"      # a target failure is rendered with nil arguments: the else branch
        elif m and b"{{" not in b:
            custom[int(m.group(1))] = b
    shard = 60
    jobs = []
    custom_partial = {k: v for k, v in custom.items() if k != 504}
    is_partial = lambda k, c: k == "seq" and SERVICES[c["svc"]].get("partial")
    for tag, table, idxs in (("f", custom, [i for i, (k, c, o) in enumerate(all_cases) if not is_partial(k, c)]),
                             ("p", custom_partial, [i for i, (k, c, o) in enumerate(all_cases) if is_partial(k, c)])):
        for s in range(0, len(idxs), shard):
            part = idxs[s:s + shard]
            terms = [(lambda pages, k=all_cases[i][0], c=all_cases[i][1], o=all_cases[i][2]:
                      seq_term(pages, c, o) if k == "seq" else stall_term(pages, c, o)) for i in part]
            jobs.append(("%s%d" % (tag, s), table, part, terms))
    from concurrent.futures import ThreadPoolExecutor

    def ev(job):
        name, table, part, terms = job
        return part, evaluate(work, "Cases_%s" % name, builtin, table, terms)
    with ThreadPoolExecutor(max_workers=12) as ex:
        for part, fl in ex.map(ev, jobs):
            for (j, a, m) in fl:
                if j >= 10000:
                    known.setdefault(part[j % 10000], {})[j // 10000] = a
                else:
                    failing[part[j]] = (a, m)
    return failing, known


def replay(path):
    """Re-run the case of a replay file alone and print what is observed and the verdicts."""
    p = json.load(open(path))
    work = Work(PROP + "replay")
    try:
        cases = [{"kind": "config", "timeout_ms": TIMEOUT_MS, "hang_ms": HANG_MS, "services": SERVICES}]
        stalls = []
        if p["kind"] == "seq":
            cases.append(p["case"])
        else:
            stalls.append(p["case"])
        ok, out, obs, sobs = execute(work, cases, stalls)
        if not ok:
            print(out[-3000:])
            return 2
        all_cases = [("seq", c, o) for c, o in zip(cases[1:], obs[1:])] + [("stall", c, o) for c, o in zip(stalls, sobs)]
        print(json.dumps(strip_bodies(all_cases[0][2]), indent=1, sort_keys=True))
        failing, known = judge(work, all_cases, obs[0])
        a, m = failing.get(0, (True, True))
        print("agrees with the model: %s   monitor: %s   known findings matched: %s" % (
            a, m, [KNOWN_IDS[k] for k in known.get(0, {})]))
        return 0 if m else 1
    finally:
        work.cleanup()


def run(tier, seed):
    res = Result(PROP, tier, seed)
    work = Work(PROP)
    try:
        ok, blog = coq_build(["props/C15.vo", "corr/C15corr.vo", "corr/C15f3.vo"])
        proofs_ok, pa = proof_obligations(work, res, "C15.v", ok, blog)
        if ok:
            # the model's classification proved equal to the if-chain of handleProxyError as the source has it on this run
            import gentie
            g_ok, g_log = gentie.gen_tie(work, res, only=("gen_handle_proxy_error",))
            if not g_ok:
                proofs_ok = False
                pa += "\n" + g_log
        cases = gen_cases(seed, tier)
        stalls = gen_stall_cases(seed, tier)
        harness_ok, hout, obs, sobs = execute(work, cases, stalls)
        out, out2 = hout, ""
        all_cases = [("seq", c, o) for c, o in zip(cases[1:], obs[1:])] + [("stall", c, o) for c, o in zip(stalls, sobs)]
        eval_err = ""
        try:
            failing, known = judge(work, all_cases, obs[0]) if harness_ok and ok else ({}, {})
        except RuntimeError as ex:     # the observations do not even form well-typed terms / coqc failed
            failing, known, eval_err = {}, {}, str(ex)
            harness_ok, out = False, out + "\n" + eval_err
        # ---- verdicts
        listed = {e["id"]: e for e in known_findings(PROP)}
        real_mon, disagree, known_hits = [], [], {}
        f3_custom = {}
        for fname, hx in ((obs[0] if obs else {}).get("custom_pages") or {}).items():
            mm = re.fullmatch(r"(\d+)\.html", fname)
            if mm and bytes.fromhex(hx) == TPL_504:
                f3_custom[int(mm.group(1))] = b"custom504[none]"
            elif mm and b"{{" not in bytes.fromhex(hx):
                f3_custom[int(mm.group(1))] = bytes.fromhex(hx)
        f3_pages = (read_builtin(), f3_custom)
        for j, (a, m) in sorted(failing.items()):
            if not m:
                ks = known.get(j, {})
                if ks and all(ks.values()) and all(KNOWN_IDS.get(k) in listed for k in ks):
                    for k in ks:
                        known_hits.setdefault(k, []).append(j)
                    if not a:
                        disagree.append(j)
                elif (all_cases[j][0] == "seq" and "C15-F3-unread-body-stuck-in-dial" in listed and
                      evaluate_f3(work, "F3_%d" % j, f3_pages[0],
                                  {k: v for k, v in f3_pages[1].items() if not (k == 504 and SERVICES[all_cases[j][1]["svc"]].get("partial"))},
                                  all_cases[j][1], all_cases[j][2])):
                    known_hits.setdefault(3, []).append(j)
                else:
                    real_mon.append(j)
            elif not a:
                disagree.append(j)
        for k, js in sorted(known_hits.items()):
            kind, c, o = all_cases[js[0]]
            res.known_finding("%s: %s (%d case(s) this run, e.g. case %d)" % (
                KNOWN_IDS[k], listed[KNOWN_IDS[k]]["what"][:160], len(js), js[0]))

        def payload_case(j):
            kind, c, o = all_cases[j]
            return {"kind": kind, "case": c, "observed": strip_bodies(o),
                    "service": SERVICES[c["svc"]] if kind == "seq" else None,
                    "replay": "python3 /verif/tools/c15.py replay <this file>"}
        # ---- coverage
        dist, outcomes = {}, {}
        elapsed_err, n_steps = [], 0
        for c, o in zip(cases[1:], obs[1:]):
            for st, so in zip(c["steps"], o["steps"]):
                n_steps += 1
                dist[st["kind"]] = dist.get(st["kind"], 0) + 1
                key = "%s -> %s" % (st["kind"], "hang" if so.get("hang") else
                                    ("no response bytes" if not so.get("raw_len") else
                                     "%s %s" % (so.get("status"), "complete" if so.get("complete") else "cut short")))
                outcomes[key] = outcomes.get(key, 0) + 1
                if st["kind"] in BEFORE + SILENT and not so.get("hang"):
                    elapsed_err.append(so.get("elapsed_ms", 0))
        for c, o in zip(stalls, sobs):
            k = "virtual-clock %s stall (delay - timeout: %s)" % (
                c["phase"], "<0" if c["delay_ns"] < c["timeout_ns"] else "0" if c["delay_ns"] == c["timeout_ns"] else ">0")
            dist[k] = dist.get(k, 0) + 1
            key = "%s -> %s" % (k, "hang" if o.get("hang") else o.get("status"))
            outcomes[key] = outcomes.get(key, 0) + 1
        distinct = len({json.dumps(st, sort_keys=True) for c in cases[1:] for st in c["steps"]}) + \
            len({json.dumps(c, sort_keys=True) for c in stalls})
        res.coverage.update({
            "evaluations": n_steps + len(stalls), "distinct_nontrivial": distinct,
            "sequences": len(cases) - 1,
            "rule": "every fault kind x (request buffering, response buffering, custom pages) once, each followed by a good "
                    "request, + random sequences of 2..6 faults then a good request on one service (real TCP, real time, "
                    "target timeout %d ms, stalls at timeout -/+ %d ms) + virtual-clock stalls at timeout -1s/-1ns/0/+1ns/+1s/x10 "
                    "on every configuration and random (timeout, delay) pairs; a case is distinct by its JSON" % (TIMEOUT_MS, MARGIN_MS),
            "input_distribution": dist, "outcome_distribution": outcomes,
            "max_elapsed_ms_error_responses": max(elapsed_err) if elapsed_err else None,
            "samples": [cases[1], cases[len(cases) // 2], stalls[0]],
            "correspondence": {"cases": len(all_cases), "disagreements": len(disagree), "monitor_failures": len(real_mon),
                               "monitor_failures_matching_known_findings": sum(len(v) for v in known_hits.values())},
        })
        res.assumptions = [
            "model/ProxyError.v and model/ErrorPage.v are hand-written; tied to target.go / error_page_middleware.go / service.go / "
            "server.go only by this correspondence run",
            "which Go error value each wire fault produces (corr/C15corr.v behaviour_of) and how a response aborted after its "
            "header block looks on the wire (connection closed / body shorter than Content-Length / missing terminal chunk) are "
            "net/http behaviour: enumerated and compared, not proved",
            "pages are static byte strings (no template actions) in the model; html/template execution errors are not modelled",
            "real-time part: a measured stall within %d ms of the timeout is not judged; 'promptly' = within timeout + %d ms; "
            "the exact boundary is covered on the virtual clock (net.Pipe target, real http.Transport)" % (MARGIN_MS - 100, EPS_MS),
            "the in-flight theorems are about the bookkeeping model and its trace acceptor; that 'defer' runs on every exit is Go semantics, "
            "observed through len(Target.inflight) and the claim/end/drain-snapshot hooks",
        ]
        if real_mon:
            j = real_mon[0]
            p = payload_case(j)
            p.update({"property": PROP, "what": "monitor false on an implementation observation", "seed": seed, "tier": tier,
                      "index": j})
            res.violation("monitor-%d" % j, p)
        elif disagree or not harness_ok or not proofs_ok:
            what = ("model and implementation disagree" if disagree else
                    "harness does not build/run against the tree" if not harness_ok else "proof obligations of props/C15.v do not check")
            payload = {"property": PROP, "what": what, "seed": seed, "tier": tier,
                       "broken": "corr.C15corr.seq_agree / stall_agree (model/ProxyError.v, model/ErrorPage.v vs the handler chain)"
                                 if disagree or not harness_ok else "props/C15.v"}
            if disagree:
                payload.update(payload_case(disagree[0]))
            if not harness_ok:
                payload["harness_output"] = (out + out2)[-3000:]
            if not proofs_ok:
                payload["coq_output"] = (blog + pa)[-3000:]
            res.violation("broken", payload, no_input=True)
        return res.finish()
    finally:
        work.cleanup()


def strip_bodies(o):
    """Observation without the page bodies (replay files stay readable)."""
    def f(x):
        if isinstance(x, dict):
            return {k: (("<%d bytes>" % (len(v) // 2)) if k == "body" and isinstance(v, str) and len(v) > 200 else f(v))
                    for k, v in x.items()}
        if isinstance(x, list):
            return [f(y) for y in x]
        return x
    return f(o)


if __name__ == "__main__":
    if len(sys.argv) == 3 and sys.argv[1] == "replay":
        sys.exit(replay(sys.argv[2]))
    print("usage: c15.py replay <replay file>")
    sys.exit(2)
